#!/bin/sh
# Build the framework from files on disk only (offline).
set -e
cd "$(dirname "$0")"
export CARGO_NET_OFFLINE=true
mkdir -p target/results target/scratch evidence replays
(cd harness && cargo build --release --offline -p hbsmon 2>&1 | tail -3)
echo setup done
