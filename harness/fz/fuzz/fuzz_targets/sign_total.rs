//! Fuzz target for C11/C04: arbitrary private-key bytes, aux buffer and message go through
//! sign / get_lifetime / SigningKey::from_bytes.  No panic; an error path never invokes the
//! callback; the callback is never invoked twice.  Well-formed keys with trees taller than H5 are
//! skipped (they cost minutes), everything else is executed.
//!
//! input layout: [hash selector][key length][aux length (255 = none)][callback answer] key || aux || message
#![no_main]
use libfuzzer_sys::fuzz_target;

macro_rules! with_hash {
    ($alg:expr, $H:ident, $body:expr) => {
        match $alg {
            model::Alg::Sha256_256 => { type $H = hbs_lms::Sha256_256; $body }
            model::Alg::Sha256_192 => { type $H = hbs_lms::Sha256_192; $body }
            model::Alg::Sha256_128 => { type $H = hbs_lms::Sha256_128; $body }
            model::Alg::Shake256_256 => { type $H = hbs_lms::Shake256_256; $body }
            model::Alg::Shake256_192 => { type $H = hbs_lms::Shake256_192; $body }
            model::Alg::Shake256_128 => { type $H = hbs_lms::Shake256_128; $body }
        }
    };
}

fuzz_target!(|data: &[u8]| {
    if data.len() < 4 {
        return;
    }
    let alg = model::ALL_ALGS[(data[0] % 6) as usize];
    let klen = data[1] as usize % 80;
    let alen = data[2] as usize;
    let accept = data[3] & 1 == 0;
    let rest = &data[4..];
    let want_aux = alen != 255;
    let alen = if want_aux { alen * 4 } else { 0 };
    if rest.len() < klen + alen {
        return;
    }
    let (key, rest) = rest.split_at(klen);
    let (aux, msg) = rest.split_at(alen);
    let mut cfg = model::Cfg::lib(alg);
    cfg.h2 = true;
    let parsed = model::hss::parse_blob(&cfg, key);
    if let Some(b) = &parsed {
        // cost guard (hash compressions per tree build, summed over the levels): the fuzzer should
        // spend its time on parsing and protocol paths, not on Winternitz chains
        let cost: u64 = b.levels.iter().map(|l| (1u64 << l.h) * model::params::ots_rfc(alg.n(), l.w).p as u64 * ((1u64 << l.w) - 1)).sum();
        if b.levels.iter().any(|l| l.h > 5) || cost > 40_000 {
            return;
        }
    }
    let mut calls = 0usize;
    let mut auxbuf = aux.to_vec();
    let ok = with_hash!(alg, H, {
        let mut cb = |_k: &[u8]| -> Result<(), ()> {
            calls += 1;
            if accept { Ok(()) } else { Err(()) }
        };
        let r = if want_aux {
            let mut s: &mut [u8] = &mut auxbuf[..];
            hbs_lms::sign::<H>(msg, key, &mut cb, Some(&mut s)).is_ok()
        } else {
            hbs_lms::sign::<H>(msg, key, &mut cb, None).is_ok()
        };
        if let Ok(k) = hbs_lms::SigningKey::<H>::from_bytes(key) {
            let _ = k.get_lifetime();
        }
        r
    });
    if calls > 1 {
        panic!("PROTOCOL callback invoked {calls} times");
    }
    if ok && (calls != 1 || !accept) {
        panic!("PROTOCOL signature released with {calls} callback invocations, callback accepts: {accept}");
    }
    if !ok && calls == 1 && accept {
        panic!("PROTOCOL callback accepted the new key but no signature was released");
    }
    if parsed.is_none() && (ok || calls > 0) {
        panic!("PROTOCOL malformed key bytes: released={ok} callbacks={calls}");
    }
});
