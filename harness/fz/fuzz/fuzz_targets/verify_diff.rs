//! Differential fuzz target for C02/C06: arbitrary (hash, message, public key, signature) bytes
//! go through all verification entry points of the library and through the independent RFC 8554
//! verifier.  A panic (C06) or a disagreement (C02) aborts the process, which libFuzzer records
//! as a crash with the input as artifact.
//!
//! input layout: [hash selector][message length][pk length selector] message || public key || signature
#![no_main]
use hbs_lms::signature::{Signature as _, Verifier};
use libfuzzer_sys::fuzz_target;

macro_rules! with_hash {
    ($alg:expr, $H:ident, $body:expr) => {
        match $alg {
            model::Alg::Sha256_256 => { type $H = hbs_lms::Sha256_256; $body }
            model::Alg::Sha256_192 => { type $H = hbs_lms::Sha256_192; $body }
            model::Alg::Sha256_128 => { type $H = hbs_lms::Sha256_128; $body }
            model::Alg::Shake256_256 => { type $H = hbs_lms::Shake256_256; $body }
            model::Alg::Shake256_192 => { type $H = hbs_lms::Shake256_192; $body }
            model::Alg::Shake256_128 => { type $H = hbs_lms::Shake256_128; $body }
        }
    };
}

fuzz_target!(|data: &[u8]| {
    if data.len() < 3 {
        return;
    }
    let alg = model::ALL_ALGS[(data[0] % 6) as usize];
    let n = alg.n();
    let mlen = data[1] as usize;
    let pklen = if data[2] & 0x80 == 0 { 28 + n } else { (data[2] & 0x7f) as usize };
    let rest = &data[3..];
    if rest.len() < mlen + pklen {
        return;
    }
    let (msg, rest) = rest.split_at(mlen);
    let (pk, sig) = rest.split_at(pklen);
    let mut cfg = model::Cfg::lib(alg);
    cfg.h2 = true;
    let want = model::hss::verify(&cfg, msg, sig, pk);
    let got = with_hash!(alg, H, {
        let a = hbs_lms::verify::<H>(msg, sig, pk).is_ok();
        let b = match (hbs_lms::VerifyingKey::<H>::from_bytes(pk), hbs_lms::Signature::from_bytes(sig)) {
            (Ok(k), Ok(s)) => k.verify(msg, &s).is_ok(),
            _ => false,
        };
        let c = match (hbs_lms::VerifyingKey::<H>::from_bytes(pk), hbs_lms::VerifierSignature::from_ref(sig)) {
            (Ok(k), Ok(s)) => k.verify(msg, &s).is_ok(),
            _ => false,
        };
        (a, b, c)
    });
    if got != (want, want, want) {
        panic!("DISAGREE hash={} rfc={} library={:?}", alg.name(), want, got);
    }
});
