// host crate for the cargo-fuzz targets in fuzz/
