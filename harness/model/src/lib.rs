//! Independent reference model of RFC 8554 (LM-OTS / LMS / HSS) and of the hash-sigs key-file
//! conventions, plus the shared plumbing of the monitors (PRNG, JSON, reports).
//! Does not depend on the library under test.

pub mod alg;
pub mod aux;
pub mod hss;
pub mod json;
pub mod lmots;
pub mod lms;
pub mod params;
pub mod report;
pub mod rng;

pub use alg::{Alg, ALL_ALGS};
pub use json::J;
pub use params::{Cfg, Level, LsMode, Ots};
pub use report::{Report, Violation};
pub use rng::Rng;
