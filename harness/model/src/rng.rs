//! SplitMix64: the only source of randomness of the harness; seeded from VERIF_SEED.

#[derive(Clone)]
pub struct Rng(pub u64);

impl Rng {
    pub fn new(seed: u64) -> Rng {
        Rng(seed.wrapping_mul(0x9e37_79b9_7f4a_7c15) ^ 0x5851_f42d_4c95_7f2d)
    }
    /// independent stream for a named purpose
    pub fn fork(&self, tag: &str) -> Rng {
        let mut h: u64 = self.0 ^ 0xcbf2_9ce4_8422_2325;
        for b in tag.bytes() {
            h ^= b as u64;
            h = h.wrapping_mul(0x1000_0000_01b3);
        }
        let mut r = Rng(h);
        r.next();
        r
    }
    pub fn next(&mut self) -> u64 {
        self.0 = self.0.wrapping_add(0x9e37_79b9_7f4a_7c15);
        let mut z = self.0;
        z = (z ^ (z >> 30)).wrapping_mul(0xbf58_476d_1ce4_e5b9);
        z = (z ^ (z >> 27)).wrapping_mul(0x94d0_49bb_1331_11eb);
        z ^ (z >> 31)
    }
    pub fn below(&mut self, n: u64) -> u64 {
        if n == 0 {
            0
        } else {
            self.next() % n
        }
    }
    pub fn range(&mut self, lo: usize, hi: usize) -> usize {
        lo + self.below((hi - lo) as u64) as usize
    }
    pub fn chance(&mut self, num: u64, den: u64) -> bool {
        self.below(den) < num
    }
    pub fn bytes(&mut self, n: usize) -> Vec<u8> {
        let mut v = Vec::with_capacity(n + 8);
        while v.len() < n {
            v.extend_from_slice(&self.next().to_le_bytes());
        }
        v.truncate(n);
        v
    }
    pub fn pick<'a, T>(&mut self, xs: &'a [T]) -> &'a T {
        &xs[self.below(xs.len() as u64) as usize]
    }
    pub fn shuffle<T>(&mut self, xs: &mut [T]) {
        for i in (1..xs.len()).rev() {
            let j = self.below(i as u64 + 1) as usize;
            xs.swap(i, j);
        }
    }
}
