//! LMS per RFC 8554 section 5: tree, signature, verification (Algorithms 6 / 6a).

use std::collections::HashMap;
use std::sync::Arc;

use crate::lmots::{self, D_INTR, D_LEAF};
use crate::params::{self, Cfg, Ots};

/// All nodes of one LMS tree; index 1 is the root, 2^h..2^(h+1)-1 are the leaves.
pub struct Tree {
    pub h: u32,
    pub nodes: Vec<Vec<u8>>,
}

impl Tree {
    pub fn root(&self) -> &[u8] {
        &self.nodes[1]
    }
    pub fn path(&self, q: u32) -> Vec<u8> {
        let mut r = (1usize << self.h) + q as usize;
        let mut out = Vec::new();
        while r > 1 {
            out.extend_from_slice(&self.nodes[r ^ 1]);
            r >>= 1;
        }
        out
    }
}

pub fn leaf_hash(cfg: &Cfg, i_tree: &[u8; 16], r: u32, k: &[u8]) -> Vec<u8> {
    cfg.alg.hash(&[i_tree, &r.to_be_bytes(), &D_LEAF, k])
}
pub fn intr_hash(cfg: &Cfg, i_tree: &[u8; 16], r: u32, l: &[u8], rr: &[u8]) -> Vec<u8> {
    cfg.alg.hash(&[i_tree, &r.to_be_bytes(), &D_INTR, l, rr])
}

pub fn build_tree(cfg: &Cfg, o: &Ots, h: u32, i_tree: &[u8; 16], seed: &[u8]) -> Tree {
    let leaves = 1usize << h;
    let mut nodes: Vec<Vec<u8>> = vec![Vec::new(); 2 * leaves];
    for q in 0..leaves {
        let k = lmots::ots_public(cfg, o, i_tree, q as u32, seed);
        nodes[leaves + q] = leaf_hash(cfg, i_tree, (leaves + q) as u32, &k);
    }
    for r in (1..leaves).rev() {
        let v = intr_hash(cfg, i_tree, r as u32, &nodes[2 * r], &nodes[2 * r + 1]);
        nodes[r] = v;
    }
    Tree { h, nodes }
}

type TreeKey = (Cfg, Ots, u32, [u8; 16], Vec<u8>);

/// Memo of built trees so that a lifetime walk by the model costs one build per subtree.
#[derive(Default)]
pub struct TreeCache {
    map: HashMap<TreeKey, Arc<Tree>>,
    bytes: usize,
    pub builds: u64,
    pub hits: u64,
}

impl TreeCache {
    pub fn new() -> Self {
        Self::default()
    }
    pub fn get(&mut self, cfg: &Cfg, o: &Ots, h: u32, i_tree: &[u8; 16], seed: &[u8]) -> Arc<Tree> {
        let key: TreeKey = (*cfg, *o, h, *i_tree, seed.to_vec());
        if let Some(t) = self.map.get(&key) {
            self.hits += 1;
            return t.clone();
        }
        let t = Arc::new(build_tree(cfg, o, h, i_tree, seed));
        self.builds += 1;
        let sz = (2usize << h) * (cfg.n() + 24);
        if self.bytes + sz > (256 << 20) {
            self.map.clear();
            self.bytes = 0;
        }
        self.bytes += sz;
        self.map.insert(key, t.clone());
        t
    }
}

/// LMS public key bytes: u32(type) || u32(otstype) || I || T[1]
pub fn lms_public_key(lms_code: u32, ots_code: u32, i_tree: &[u8; 16], root: &[u8]) -> Vec<u8> {
    let mut v = Vec::with_capacity(24 + root.len());
    v.extend_from_slice(&lms_code.to_be_bytes());
    v.extend_from_slice(&ots_code.to_be_bytes());
    v.extend_from_slice(i_tree);
    v.extend_from_slice(root);
    v
}

/// LMS signature bytes: u32(q) || u32(otstype) || C || y || u32(lmstype) || path
#[allow(clippy::too_many_arguments)]
pub fn lms_sign(
    cfg: &Cfg,
    o: &Ots,
    tree: &Tree,
    i_tree: &[u8; 16],
    seed: &[u8],
    q: u32,
    c: &[u8],
    msg: &[u8],
) -> Vec<u8> {
    let mut v = Vec::new();
    v.extend_from_slice(&q.to_be_bytes());
    v.extend_from_slice(&o.code.to_be_bytes());
    v.extend_from_slice(c);
    v.extend_from_slice(&lmots::ots_sign(cfg, o, i_tree, q, seed, c, msg));
    v.extend_from_slice(&params::lms_code_of_height(tree.h).to_be_bytes());
    v.extend_from_slice(&tree.path(q));
    v
}

fn be32(b: &[u8]) -> u32 {
    u32::from_be_bytes([b[0], b[1], b[2], b[3]])
}

/// Field offsets of one LMS signature inside a larger buffer.
#[derive(Clone, Debug)]
pub struct LmsSigLayout {
    pub start: usize,
    pub ots_code: u32,
    pub lms_code: u32,
    pub ots: Ots,
    pub h: u32,
    pub off_q: usize,
    pub off_otstype: usize,
    pub off_c: usize,
    pub off_y: usize,
    pub off_lmstype: usize,
    pub off_path: usize,
    pub end: usize,
}

/// "next LMS signature": length-driven parse at `start` (the types inside decide the length).
/// None when a type is unknown or the data is too short.
pub fn parse_lms_sig(cfg: &Cfg, data: &[u8], start: usize) -> Option<LmsSigLayout> {
    let n = cfg.n();
    if data.len() < start + 8 {
        return None;
    }
    let ots_code = be32(&data[start + 4..]);
    let o = params::ots(cfg, ots_code)?;
    let off_lmstype = start + 8 + n * (o.p + 1);
    if data.len() < off_lmstype + 4 {
        return None;
    }
    let lms_code = be32(&data[off_lmstype..]);
    let h = params::lms_height(cfg, lms_code)?;
    let end = off_lmstype + 4 + n * h as usize;
    if data.len() < end {
        return None;
    }
    Some(LmsSigLayout {
        start,
        ots_code,
        lms_code,
        ots: o,
        h,
        off_q: start,
        off_otstype: start + 4,
        off_c: start + 8,
        off_y: start + 8 + n,
        off_lmstype,
        off_path: off_lmstype + 4,
        end,
    })
}

/// RFC 8554 Algorithm 6 / 6a.  `public_key` must be exactly 24 + m bytes, `sig` exactly one LMS
/// signature.
pub fn lms_verify(cfg: &Cfg, msg: &[u8], sig: &[u8], public_key: &[u8]) -> bool {
    let m = cfg.n();
    if public_key.len() < 8 {
        return false;
    }
    let pub_lms = be32(&public_key[0..]);
    let pub_ots = be32(&public_key[4..]);
    let h = match params::lms_height(cfg, pub_lms) {
        Some(h) => h,
        None => return false,
    };
    if public_key.len() != 24 + m {
        return false;
    }
    let o = match params::ots(cfg, pub_ots) {
        Some(o) => o,
        None => return false,
    };
    let mut i_tree = [0u8; 16];
    i_tree.copy_from_slice(&public_key[8..24]);
    let t1 = &public_key[24..];

    // Algorithm 6a
    if sig.len() < 8 {
        return false;
    }
    let q = be32(&sig[0..]);
    let sig_ots = be32(&sig[4..]);
    if sig_ots != pub_ots {
        return false;
    }
    if sig.len() < 12 + o.n * (o.p + 1) {
        return false;
    }
    let off_lmstype = 8 + o.n * (o.p + 1);
    let sig_lms = be32(&sig[off_lmstype..]);
    if sig_lms != pub_lms {
        return false;
    }
    if q >= (1u32 << h) {
        return false;
    }
    if sig.len() != 12 + o.n * (o.p + 1) + m * h as usize {
        return false;
    }
    let c = &sig[8..8 + o.n];
    let y = &sig[8 + o.n..off_lmstype];
    let path = &sig[off_lmstype + 4..];
    let kc = lmots::ots_candidate(cfg, &o, &i_tree, q, c, y, msg);
    let mut node_num = (1u32 << h) + q;
    let mut tmp = leaf_hash(cfg, &i_tree, node_num, &kc);
    let mut i = 0usize;
    while node_num > 1 {
        let p = &path[i * m..(i + 1) * m];
        tmp = if node_num % 2 == 1 {
            intr_hash(cfg, &i_tree, node_num / 2, p, &tmp)
        } else {
            intr_hash(cfg, &i_tree, node_num / 2, &tmp, p)
        };
        node_num /= 2;
        i += 1;
    }
    tmp == t1
}
