//! HSS per RFC 8554 section 6 plus the hash-sigs private-key conventions
//! (seed-derived trees, 8-byte counter, parameter bytes).

use crate::lms::{self, LmsSigLayout, TreeCache};
use crate::params::{self, Cfg, Level, Ots};

pub const D_TOPSEED: u16 = 0xfefe;
pub const SEED_CHILD_SEED: u16 = 0xfffe;
pub const SEED_CHILD_I: u16 = 0xffff;
pub const SEED_RANDOMIZER: u16 = 0xfffd;
pub const PARAM_END: u8 = 0xff;

#[derive(Clone, PartialEq, Eq, Debug)]
pub struct TreeId {
    pub seed: Vec<u8>,
    pub i: [u8; 16],
}

/// hash-sigs PRNG block: I || u32(q) || u16(j) || 0xff || seed, zero padded to 23+32 bytes.
/// (For hashes with n < 32 the block keeps its 55-byte length: pinned to the tree under test,
/// DESIGN.md 2.1 item 1.)
pub fn seed_derive(cfg: &Cfg, tree: &TreeId, q: u32, j: u16) -> Vec<u8> {
    let mut buf = [0u8; 55];
    buf[0..16].copy_from_slice(&tree.i);
    buf[16..20].copy_from_slice(&q.to_be_bytes());
    buf[20..22].copy_from_slice(&j.to_be_bytes());
    buf[22] = 0xff;
    buf[23..23 + tree.seed.len()].copy_from_slice(&tree.seed);
    cfg.alg.hash(&[&buf])
}

pub fn root_tree_id(cfg: &Cfg, master_seed: &[u8]) -> TreeId {
    let n = cfg.n();
    assert_eq!(master_seed.len(), n);
    let mut pre = [0u8; 55];
    pre[20] = (D_TOPSEED >> 8) as u8;
    pre[21] = (D_TOPSEED & 0xff) as u8;
    pre[23..23 + n].copy_from_slice(master_seed);
    let post = cfg.alg.hash(&[&pre]);
    pre[23..23 + n].copy_from_slice(&post);
    pre[22] = 1;
    let seed = cfg.alg.hash(&[&pre]);
    pre[22] = 2;
    let ih = cfg.alg.hash(&[&pre]);
    let mut i = [0u8; 16];
    i.copy_from_slice(&ih[..16]);
    TreeId { seed, i }
}

pub fn child_tree_id(cfg: &Cfg, parent: &TreeId, parent_q: u32) -> TreeId {
    let seed = seed_derive(cfg, parent, parent_q, SEED_CHILD_SEED);
    let ih = seed_derive(cfg, parent, parent_q, SEED_CHILD_I);
    let mut i = [0u8; 16];
    i.copy_from_slice(&ih[..16]);
    TreeId { seed, i }
}

/// per-leaf randomizer C
pub fn randomizer(cfg: &Cfg, tree: &TreeId, q: u32) -> Vec<u8> {
    seed_derive(cfg, tree, q, SEED_RANDOMIZER)
}

// ---------------------------------------------------------------------------------------------
// private key blob

pub fn param_bytes(levels: &[Level]) -> [u8; 8] {
    let mut p = [PARAM_END; 8];
    for (i, l) in levels.iter().enumerate() {
        p[i] = l.param_byte();
    }
    p
}

pub fn make_blob(counter: u64, levels: &[Level], seed: &[u8]) -> Vec<u8> {
    let mut v = Vec::with_capacity(16 + seed.len());
    v.extend_from_slice(&counter.to_be_bytes());
    v.extend_from_slice(&param_bytes(levels));
    v.extend_from_slice(seed);
    v
}

#[derive(Clone, Debug, PartialEq, Eq)]
pub struct Blob {
    pub counter: u64,
    pub levels: Vec<Level>,
    pub seed: Vec<u8>,
}

/// Parse a private-key blob.  None for: wrong length, empty parameter list (wiped key),
/// invalid parameter byte before the end marker.
pub fn parse_blob(cfg: &Cfg, blob: &[u8]) -> Option<Blob> {
    if blob.len() != 16 + cfg.n() {
        return None;
    }
    let counter = u64::from_be_bytes(blob[0..8].try_into().unwrap());
    let mut levels = Vec::new();
    for &b in &blob[8..16] {
        if b == PARAM_END {
            break;
        }
        levels.push(Level::from_param_byte(cfg, b)?);
    }
    if levels.is_empty() {
        return None;
    }
    Some(Blob { counter, levels, seed: blob[16..].to_vec() })
}

pub fn wiped_blob(n: usize) -> Vec<u8> {
    let mut v = vec![0u8; 8];
    v.extend_from_slice(&[PARAM_END; 8]);
    v.extend_from_slice(&vec![0u8; n]);
    v
}

/// "cleared" per C05: counter zero, seed zero, same length, parameter bytes all end-marker
/// (what the tree writes) or all zero.
pub fn is_wiped(blob: &[u8], n: usize) -> bool {
    blob.len() == 16 + n
        && blob[..8].iter().all(|b| *b == 0)
        && blob[16..].iter().all(|b| *b == 0)
        && (blob[8..16].iter().all(|b| *b == PARAM_END) || blob[8..16].iter().all(|b| *b == 0))
}

// ---------------------------------------------------------------------------------------------
// counter arithmetic (u128 so that nothing can overflow for sum(h) <= 200)

pub fn total_height(levels: &[Level]) -> u32 {
    levels.iter().map(|l| l.h).sum()
}

/// number of signatures of a fresh key (saturates at u128::MAX for sum(h) >= 128)
pub fn total_leaves(levels: &[Level]) -> u128 {
    let s = total_height(levels);
    if s >= 128 {
        u128::MAX
    } else {
        1u128 << s
    }
}

/// mixed-radix digits of `counter`, bottom level least significant; entry i is the leaf index
/// used on level i (0 = top).
pub fn leaf_digits(levels: &[Level], counter: u64) -> Vec<u32> {
    let mut c = counter as u128;
    let mut out = vec![0u32; levels.len()];
    for i in (0..levels.len()).rev() {
        let r = 1u128 << levels[i].h;
        out[i] = (c % r) as u32;
        c /= r;
    }
    out
}

/// Some(c+1) while leaves remain after this one, None when `counter` is the last leaf
pub fn successor(levels: &[Level], counter: u64) -> Option<u64> {
    let total = total_leaves(levels);
    if (counter as u128) + 1 >= total || counter == u64::MAX {
        // last leaf, or (sum(h) >= 64) the 64-bit counter itself is used up
        None
    } else {
        Some(counter + 1)
    }
}

pub fn remaining(levels: &[Level], counter: u64) -> u128 {
    total_leaves(levels).saturating_sub(counter as u128)
}

// ---------------------------------------------------------------------------------------------
// key generation and signing

/// everything on the path selected by `counter`
pub struct Expanded {
    pub levels: Vec<Level>,
    pub ots: Vec<Ots>,
    pub q: Vec<u32>,
    pub tid: Vec<TreeId>,
    pub trees: Vec<std::sync::Arc<lms::Tree>>,
    pub pubs: Vec<Vec<u8>>,
}

pub fn expand(cfg: &Cfg, cache: &mut TreeCache, b: &Blob) -> Expanded {
    let q = leaf_digits(&b.levels, b.counter);
    let mut tid = vec![root_tree_id(cfg, &b.seed)];
    for i in 1..b.levels.len() {
        let t = child_tree_id(cfg, &tid[i - 1], q[i - 1]);
        tid.push(t);
    }
    let mut ots = Vec::new();
    let mut trees = Vec::new();
    let mut pubs = Vec::new();
    for (i, l) in b.levels.iter().enumerate() {
        let o = params::ots(cfg, params::code_of_w(l.w)).unwrap();
        let t = cache.get(cfg, &o, l.h, &tid[i].i, &tid[i].seed);
        pubs.push(lms::lms_public_key(params::lms_code_of_height(l.h), o.code, &tid[i].i, t.root()));
        ots.push(o);
        trees.push(t);
    }
    Expanded { levels: b.levels.clone(), ots, q, tid, trees, pubs }
}

/// HSS public key: u32(L) || LMS public key of the top tree
pub fn public_key(cfg: &Cfg, cache: &mut TreeCache, levels: &[Level], seed: &[u8]) -> Vec<u8> {
    let tid = root_tree_id(cfg, seed);
    let l0 = levels[0];
    let o = params::ots(cfg, params::code_of_w(l0.w)).unwrap();
    let t = cache.get(cfg, &o, l0.h, &tid.i, &tid.seed);
    let mut v = (levels.len() as u32).to_be_bytes().to_vec();
    v.extend_from_slice(&lms::lms_public_key(params::lms_code_of_height(l0.h), o.code, &tid.i, t.root()));
    v
}

/// Which randomizer rule to use for upper-level signatures.
#[derive(Clone, Copy, PartialEq, Eq, Debug)]
pub enum UpperC {
    /// the tree under test: derived from the CHILD tree's (seed, I) with the parent's leaf index
    /// (pinned, DESIGN.md 2.1 item 2)
    ChildSeed,
    /// hash-sigs: derived from the signing (parent) tree's (seed, I)
    ParentSeed,
}

/// The HSS signature the key `b` releases for `msg` (RFC 8554 section 6.2 layout).
/// `c_override`: per-level randomizers to use instead of the derived ones.
pub fn sign(
    cfg: &Cfg,
    cache: &mut TreeCache,
    b: &Blob,
    msg: &[u8],
    rule: UpperC,
    c_override: Option<&[Vec<u8>]>,
) -> Vec<u8> {
    let e = expand(cfg, cache, b);
    let l = b.levels.len();
    let mut out = ((l - 1) as u32).to_be_bytes().to_vec();
    for i in 0..l {
        let content: &[u8] = if i + 1 < l { &e.pubs[i + 1] } else { msg };
        let c = if let Some(cs) = c_override {
            cs[i].clone()
        } else if i + 1 < l {
            match rule {
                UpperC::ChildSeed => randomizer(cfg, &e.tid[i + 1], e.q[i]),
                UpperC::ParentSeed => randomizer(cfg, &e.tid[i], e.q[i]),
            }
        } else {
            randomizer(cfg, &e.tid[i], e.q[i])
        };
        out.extend_from_slice(&lms::lms_sign(
            cfg,
            &e.ots[i],
            &e.trees[i],
            &e.tid[i].i,
            &e.tid[i].seed,
            e.q[i],
            &c,
            content,
        ));
        if i + 1 < l {
            out.extend_from_slice(&e.pubs[i + 1]);
        }
    }
    out
}

/// A valid (signature, public key) pair for trees that are far too tall to build.  Per level a
/// one-time key pair for leaf `qs[i]` is derived from a random seed, the authentication path is
/// random, and the root is whatever these hash to (RFC 8554 Algorithm 6a run forwards); level i
/// signs the public key of level i+1, the bottom level signs `msg`.  To a verifier the result is
/// indistinguishable from a signature of a fully generated key with those parameters.
pub fn synthetic_triple(cfg: &Cfg, levels: &[Level], qs: &[u32], msg: &[u8], rng: &mut crate::Rng) -> (Vec<u8>, Vec<u8>) {
    synthetic_triple_forged(cfg, levels, qs, msg, rng, None)
}

/// Like `synthetic_triple`, but the public key of level `forge.0` (>= 1) is replaced by
/// `forge.1(original bytes)` BEFORE the level above signs it: the parent's signature over the
/// replaced bytes is valid, so a verifier gets as far as interpreting an authenticated but
/// malformed (or foreign) child key.  RFC 8554 rejects such a signature when it parses that key.
pub fn synthetic_triple_forged(
    cfg: &Cfg,
    levels: &[Level],
    qs: &[u32],
    msg: &[u8],
    rng: &mut crate::Rng,
    forge: Option<(usize, &dyn Fn(&[u8]) -> Vec<u8>)>,
) -> (Vec<u8>, Vec<u8>) {
    let n = cfg.n();
    let l = levels.len();
    let mut lms_sigs: Vec<Vec<u8>> = vec![Vec::new(); l];
    let mut pubs: Vec<Vec<u8>> = vec![Vec::new(); l];
    for i in (0..l).rev() {
        let lv = &levels[i];
        let o = params::ots(cfg, params::code_of_w(lv.w)).expect("ots parameters");
        let lms_code = params::lms_code_of_height(lv.h);
        let i_tree: [u8; 16] = rng.bytes(16).try_into().unwrap();
        let seed = rng.bytes(n);
        let c = rng.bytes(n);
        let q = qs[i];
        let content: Vec<u8> = if i + 1 < l { pubs[i + 1].clone() } else { msg.to_vec() };
        let k = crate::lmots::ots_public(cfg, &o, &i_tree, q, &seed);
        let mut r: u32 = (1u32 << lv.h) + q;
        let mut node = lms::leaf_hash(cfg, &i_tree, r, &k);
        let mut path = Vec::with_capacity(lv.h as usize * n);
        while r > 1 {
            let sibling = rng.bytes(n);
            node = if r & 1 == 1 { lms::intr_hash(cfg, &i_tree, r / 2, &sibling, &node) } else { lms::intr_hash(cfg, &i_tree, r / 2, &node, &sibling) };
            path.extend_from_slice(&sibling);
            r /= 2;
        }
        pubs[i] = lms::lms_public_key(lms_code, o.code, &i_tree, &node);
        if let Some((at, f)) = &forge {
            if *at == i && i > 0 {
                pubs[i] = f(&pubs[i]);
            }
        }
        let mut sg = Vec::new();
        sg.extend_from_slice(&q.to_be_bytes());
        sg.extend_from_slice(&o.code.to_be_bytes());
        sg.extend_from_slice(&c);
        sg.extend_from_slice(&crate::lmots::ots_sign(cfg, &o, &i_tree, q, &seed, &c, &content));
        sg.extend_from_slice(&lms_code.to_be_bytes());
        sg.extend_from_slice(&path);
        lms_sigs[i] = sg;
    }
    let mut sig = ((l - 1) as u32).to_be_bytes().to_vec();
    for i in 0..l {
        sig.extend_from_slice(&lms_sigs[i]);
        if i + 1 < l {
            sig.extend_from_slice(&pubs[i + 1]);
        }
    }
    let mut pk = (l as u32).to_be_bytes().to_vec();
    pk.extend_from_slice(&pubs[0]);
    (sig, pk)
}

// ---------------------------------------------------------------------------------------------
// parsing and verification

fn be32(b: &[u8]) -> u32 {
    u32::from_be_bytes([b[0], b[1], b[2], b[3]])
}

#[derive(Clone, Debug)]
pub struct HssSigLayout {
    pub nspk: u32,
    /// nspk + 1 LMS signatures
    pub sigs: Vec<LmsSigLayout>,
    /// nspk embedded public keys: (offset, length)
    pub pubs: Vec<(usize, usize)>,
    pub end: usize,
}

/// Length-driven parse of an HSS signature (RFC 8554 section 6.3 steps 1-2).
/// None if it cannot be cut into Nspk signed public keys and one LMS signature.
/// Trailing bytes after the last LMS signature are reported through `end < data.len()`.
pub fn parse_sig(cfg: &Cfg, data: &[u8]) -> Option<HssSigLayout> {
    let m = cfg.n();
    if data.len() < 4 {
        return None;
    }
    let nspk = be32(data);
    if nspk >= 8 {
        return None;
    }
    let mut off = 4;
    let mut sigs = Vec::new();
    let mut pubs = Vec::new();
    for _ in 0..nspk {
        let s = lms::parse_lms_sig(cfg, data, off)?;
        off = s.end;
        sigs.push(s);
        // next LMS public key: its own type decides m; all types of one hash share m
        if data.len() < off + 4 {
            return None;
        }
        params::lms_height(cfg, be32(&data[off..]))?;
        if data.len() < off + 24 + m {
            return None;
        }
        pubs.push((off, 24 + m));
        off += 24 + m;
    }
    let s = lms::parse_lms_sig(cfg, data, off)?;
    off = s.end;
    sigs.push(s);
    Some(HssSigLayout { nspk, sigs, pubs, end: off })
}

/// RFC 8554 section 6.3 (with L restricted to 1..8 as section 6 requires).
pub fn verify(cfg: &Cfg, msg: &[u8], sig: &[u8], public_key: &[u8]) -> bool {
    let m = cfg.n();
    if public_key.len() != 4 + 24 + m {
        return false;
    }
    let l = be32(public_key);
    if !(1..=8).contains(&l) {
        return false;
    }
    if sig.len() < 4 {
        return false;
    }
    let nspk = be32(sig);
    if nspk.checked_add(1) != Some(l) {
        return false;
    }
    let lay = match parse_sig(cfg, sig) {
        Some(x) => x,
        None => return false,
    };
    if lay.end != sig.len() {
        // the last LMS signature must be exactly the rest of the input (Algorithm 6a)
        return false;
    }
    let mut key: &[u8] = &public_key[4..];
    for i in 0..nspk as usize {
        let s = &lay.sigs[i];
        let (po, pl) = lay.pubs[i];
        let content = &sig[po..po + pl];
        if !lms::lms_verify(cfg, content, &sig[s.start..s.end], key) {
            return false;
        }
        key = content;
    }
    let s = &lay.sigs[nspk as usize];
    lms::lms_verify(cfg, msg, &sig[s.start..s.end], key)
}

/// (level, I, q) -> what was signed, taken from a signature and the public key only
/// (never from the private side): used by the one-time-key ghost map.
pub struct OtsUse {
    pub level: usize,
    pub i_tree: [u8; 16],
    pub q: u32,
    /// SHA-256(C || content)
    pub content_digest: [u8; 32],
}

pub fn ots_uses(cfg: &Cfg, msg: &[u8], sig: &[u8], public_key: &[u8]) -> Option<Vec<OtsUse>> {
    let lay = parse_sig(cfg, sig)?;
    if public_key.len() < 28 {
        return None;
    }
    let n = cfg.n();
    let mut out = Vec::new();
    let mut key_i = [0u8; 16];
    key_i.copy_from_slice(&public_key[12..28]);
    for (lvl, s) in lay.sigs.iter().enumerate() {
        let content: &[u8] = if lvl < lay.pubs.len() {
            let (po, pl) = lay.pubs[lvl];
            &sig[po..po + pl]
        } else {
            msg
        };
        let c = &sig[s.off_c..s.off_c + n];
        out.push(OtsUse {
            level: lvl,
            i_tree: key_i,
            q: be32(&sig[s.off_q..]),
            content_digest: crate::alg::sha256(&[c, content]),
        });
        if lvl < lay.pubs.len() {
            let (po, _) = lay.pubs[lvl];
            key_i.copy_from_slice(&sig[po + 8..po + 24]);
        }
    }
    Some(out)
}
