//! Parameter sets, computed from the RFC 8554 Appendix B formulas (never tabulated).

use crate::alg::Alg;

#[derive(Clone, Copy, PartialEq, Eq, Debug, Hash)]
pub enum LsMode {
    /// ls = 16 - w*v as in RFC 8554 Appendix B
    Rfc,
    /// the three values the tree under test deviates in, see known finding C12:ls:*
    LibCompat,
}

/// Context of every model operation.
#[derive(Clone, Copy, PartialEq, Eq, Debug, Hash)]
pub struct Cfg {
    pub alg: Alg,
    pub ls: LsMode,
    /// whether LMS type code 1 (4-leaf test tree) is a valid type (true for hook builds)
    pub h2: bool,
}

impl Cfg {
    pub fn new(alg: Alg) -> Cfg {
        Cfg { alg, ls: LsMode::Rfc, h2: true }
    }
    pub fn lib(alg: Alg) -> Cfg {
        Cfg { alg, ls: LsMode::LibCompat, h2: true }
    }
    pub fn n(&self) -> usize {
        self.alg.n()
    }
}

#[derive(Clone, Copy, PartialEq, Eq, Debug, Hash)]
pub struct Ots {
    pub code: u32,
    pub n: usize,
    pub w: u32,
    pub u: usize,
    pub v: usize,
    pub ls: u32,
    pub p: usize,
}

pub fn w_of_code(code: u32) -> Option<u32> {
    match code {
        1 => Some(1),
        2 => Some(2),
        3 => Some(4),
        4 => Some(8),
        _ => None,
    }
}

pub fn code_of_w(w: u32) -> u32 {
    match w {
        1 => 1,
        2 => 2,
        4 => 3,
        8 => 4,
        _ => panic!("bad w"),
    }
}

fn floor_log2(x: usize) -> u32 {
    assert!(x > 0);
    (usize::BITS - 1) - x.leading_zeros()
}

/// The three (n, w) for which the tree under test tabulates a shift that differs from Appendix B.
pub fn lib_ls_deviation(n: usize, w: u32) -> Option<u32> {
    match (n, w) {
        (24, 1) => Some(7),
        (16, 1) => Some(7),
        (16, 2) => Some(6),
        _ => None,
    }
}

pub fn ots_rfc(n: usize, w: u32) -> Ots {
    let u = (8 * n + w as usize - 1) / w as usize;
    let maxsum = u * ((1usize << w) - 1);
    let bits = floor_log2(maxsum) + 1;
    let v = ((bits + w - 1) / w) as usize;
    let ls = 16 - (v as u32) * w;
    Ots { code: code_of_w(w), n, w, u, v, ls, p: u + v }
}

pub fn ots(cfg: &Cfg, code: u32) -> Option<Ots> {
    let w = w_of_code(code)?;
    let mut o = ots_rfc(cfg.n(), w);
    if cfg.ls == LsMode::LibCompat {
        if let Some(ls) = lib_ls_deviation(o.n, w) {
            o.ls = ls;
        }
    }
    Some(o)
}

/// LMS type code -> tree height (same codes for every hash: the library's convention).
pub fn lms_height(cfg: &Cfg, code: u32) -> Option<u32> {
    match code {
        1 if cfg.h2 => Some(2),
        5 => Some(5),
        6 => Some(10),
        7 => Some(15),
        8 => Some(20),
        9 => Some(25),
        _ => None,
    }
}

pub fn lms_code_of_height(h: u32) -> u32 {
    match h {
        2 => 1,
        5 => 5,
        10 => 6,
        15 => 7,
        20 => 8,
        25 => 9,
        _ => panic!("bad height"),
    }
}

/// One HSS level as the caller specifies it.
#[derive(Clone, Copy, PartialEq, Eq, Debug, Hash, PartialOrd, Ord)]
pub struct Level {
    pub h: u32,
    pub w: u32,
}

impl Level {
    pub fn param_byte(&self) -> u8 {
        ((lms_code_of_height(self.h) << 4) | code_of_w(self.w)) as u8
    }
    pub fn from_param_byte(cfg: &Cfg, b: u8) -> Option<Level> {
        let h = lms_height(cfg, (b >> 4) as u32)?;
        let w = w_of_code((b & 0x0f) as u32)?;
        Some(Level { h, w })
    }
}

pub fn levels_to_string(levels: &[Level]) -> String {
    levels.iter().map(|l| format!("{}/{}", l.h, l.w)).collect::<Vec<_>>().join(",")
}

/// RFC 8554 signature-length formulas
pub fn lmots_sig_len(o: &Ots) -> usize {
    4 + o.n * (o.p + 1)
}
pub fn lms_sig_len(o: &Ots, h: u32, m: usize) -> usize {
    4 + lmots_sig_len(o) + 4 + m * h as usize
}
pub fn lms_pub_len(m: usize) -> usize {
    4 + 4 + 16 + m
}
pub fn hss_sig_len(cfg: &Cfg, levels: &[Level]) -> usize {
    let m = cfg.n();
    let mut len = 4;
    for (i, l) in levels.iter().enumerate() {
        let o = ots(cfg, code_of_w(l.w)).unwrap();
        len += lms_sig_len(&o, l.h, m);
        if i + 1 < levels.len() {
            len += lms_pub_len(m);
        }
    }
    len
}

#[cfg(test)]
mod tests {
    use super::*;
    #[test]
    fn appendix_b_table() {
        // RFC 8554 Table 1 (n = 32)
        for (w, p, ls) in [(1, 265, 7), (2, 133, 6), (4, 67, 4), (8, 34, 0)] {
            let o = ots_rfc(32, w);
            assert_eq!((o.p, o.ls), (p, ls));
        }
        // NIST SP 800-208 Table 3 (n = 24)
        for (w, p, ls) in [(1, 200, 8), (2, 101, 6), (4, 51, 4), (8, 26, 0)] {
            let o = ots_rfc(24, w);
            assert_eq!((o.p, o.ls), (p, ls));
        }
    }
}
