//! hash-sigs auxiliary data: level selection, layout, keyed MAC.

use crate::lms::Tree;
use crate::params::Cfg;

pub const D_DAUX: u16 = 0xfdfd;
pub const MIN_SUBTREE: usize = 2;

/// (level word, used length) for a buffer of `max_len` bytes and a top tree of height h0.
/// level word 0 / length 1 means "no aux data".
pub fn optimal_levels(cfg: &Cfg, max_len: usize, h0: u32) -> (u32, usize) {
    let n = cfg.n();
    if max_len < 4 + n {
        return (0, 1);
    }
    let mut left = max_len - (4 + n);
    let mut word = 0u32;
    let mut level = h0 as i64;
    while level >= 1 {
        let len = n << level;
        if left >= len {
            left -= len;
            word |= 0x8000_0000 | (1u32 << level);
        }
        level -= MIN_SUBTREE as i64;
    }
    if word == 0 {
        return (0, 1);
    }
    (word, max_len - left)
}

pub fn mac_key(cfg: &Cfg, seed: &[u8]) -> Vec<u8> {
    let mut prefix = [0u8; 22];
    prefix[20] = (D_DAUX >> 8) as u8;
    prefix[21] = (D_DAUX & 0xff) as u8;
    cfg.alg.hash(&[&prefix, seed])
}

/// HMAC construction with a 64-byte block for every hash (hash-sigs convention, kept for SHAKE)
pub fn hmac(cfg: &Cfg, key: &[u8], data: &[u8]) -> Vec<u8> {
    let mut ik = [0x36u8; 64];
    let mut ok = [0x5cu8; 64];
    for (i, b) in key.iter().enumerate() {
        ik[i] ^= b;
        ok[i] ^= b;
    }
    let inner = cfg.alg.hash(&[&ik, data]);
    cfg.alg.hash(&[&ok, &inner])
}

/// The complete aux buffer keygen writes into a fresh buffer of `max_len` bytes
/// (None when the buffer is too small to hold any level: then only byte 0 = 0 is written and the
/// slice is shrunk to one byte).
pub fn expected_aux(cfg: &Cfg, max_len: usize, top_tree: &Tree, seed: &[u8]) -> Option<Vec<u8>> {
    let (word, used) = optimal_levels(cfg, max_len, top_tree.h);
    if word == 0 {
        return None;
    }
    let mut v = word.to_be_bytes().to_vec();
    for level in 1..=top_tree.h {
        if (word >> level) & 1 == 1 {
            for idx in (1usize << level)..(2usize << level) {
                v.extend_from_slice(&top_tree.nodes[idx]);
            }
        }
    }
    let mac = hmac(cfg, &mac_key(cfg, seed), &v);
    v.extend_from_slice(&mac);
    assert_eq!(v.len(), used);
    Some(v)
}

/// Does `buf` carry a valid MAC for `seed` (layout taken from its own level word)?
pub fn mac_valid(cfg: &Cfg, buf: &[u8], seed: &[u8]) -> bool {
    let n = cfg.n();
    if buf.len() < 4 + n || buf[0] == 0 {
        return false;
    }
    let word = u32::from_be_bytes([buf[0], buf[1], buf[2], buf[3]]);
    let mut len = 4usize;
    for level in 0..26 {
        if (word >> level) & 1 == 1 {
            len = match len.checked_add(n << level) {
                Some(x) => x,
                None => return false,
            };
        }
    }
    if buf.len() != len + n {
        return false;
    }
    hmac(cfg, &mac_key(cfg, seed), &buf[..len]) == buf[len..]
}
