//! LM-OTS per RFC 8554 section 4, with the hash-sigs derivation of the chain starts.

use crate::params::{Cfg, Ots};

pub const D_PBLC: [u8; 2] = [0x80, 0x80];
pub const D_MESG: [u8; 2] = [0x81, 0x81];
pub const D_LEAF: [u8; 2] = [0x82, 0x82];
pub const D_INTR: [u8; 2] = [0x83, 0x83];

/// RFC 8554 section 3.1.3: coef(S, i, w)
pub fn coef(s: &[u8], i: usize, w: u32) -> u32 {
    let w = w as usize;
    let byte = s[(i * w) / 8] as u32;
    let per = 8 / w;
    let shift = 8 - (w * (i % per) + w);
    (byte >> shift) & ((1u32 << w) - 1)
}

/// RFC 8554 Algorithm 2, with the shift taken from `o.ls`; returned as the 16-bit string value
pub fn cksm(o: &Ots, q: &[u8]) -> u16 {
    let mut sum: u32 = 0;
    let max = (1u32 << o.w) - 1;
    for i in 0..o.u {
        sum += max - coef(q, i, o.w);
    }
    ((sum << o.ls) & 0xffff) as u16
}

/// unshifted checksum value
pub fn cksm_value(o: &Ots, q: &[u8]) -> u32 {
    let max = (1u32 << o.w) - 1;
    (0..o.u).map(|i| max - coef(q, i, o.w)).sum()
}

/// the p chain positions for digest q: digits of q || u16str(Cksm(q))
pub fn digits(o: &Ots, q: &[u8]) -> Vec<u32> {
    assert_eq!(q.len(), o.n);
    let mut s = q.to_vec();
    s.extend_from_slice(&cksm(o, q).to_be_bytes());
    (0..o.p).map(|i| coef(&s, i, o.w)).collect()
}

/// hash-sigs: x[i] = H(I || q || u16(i) || 0xff || seed)
pub fn ots_secret(cfg: &Cfg, i_tree: &[u8; 16], q: u32, i: u16, seed: &[u8]) -> Vec<u8> {
    cfg.alg.hash(&[i_tree, &q.to_be_bytes(), &i.to_be_bytes(), &[0xff], seed])
}

/// iterate the chain function from position `from` to position `to`
pub fn chain(cfg: &Cfg, i_tree: &[u8; 16], q: u32, i: u16, start: &[u8], from: u32, to: u32) -> Vec<u8> {
    let mut tmp = start.to_vec();
    let qb = q.to_be_bytes();
    let ib = i.to_be_bytes();
    for j in from..to {
        tmp = cfg.alg.hash(&[i_tree, &qb, &ib, &[j as u8], &tmp]);
    }
    tmp
}

/// RFC 8554 Algorithm 1: K = H(I || q || D_PBLC || y[0] || ... || y[p-1])
pub fn ots_public(cfg: &Cfg, o: &Ots, i_tree: &[u8; 16], q: u32, seed: &[u8]) -> Vec<u8> {
    let top = (1u32 << o.w) - 1;
    let mut buf: Vec<u8> = Vec::with_capacity(22 + o.p * o.n);
    buf.extend_from_slice(i_tree);
    buf.extend_from_slice(&q.to_be_bytes());
    buf.extend_from_slice(&D_PBLC);
    for i in 0..o.p {
        let x = ots_secret(cfg, i_tree, q, i as u16, seed);
        buf.extend_from_slice(&chain(cfg, i_tree, q, i as u16, &x, 0, top));
    }
    cfg.alg.hash(&[&buf])
}

/// Q = H(I || q || D_MESG || C || message)
pub fn message_digest(cfg: &Cfg, i_tree: &[u8; 16], q: u32, c: &[u8], msg: &[u8]) -> Vec<u8> {
    cfg.alg.hash(&[i_tree, &q.to_be_bytes(), &D_MESG, c, msg])
}

/// RFC 8554 Algorithm 3 (the y[] part), concatenated
pub fn ots_sign(cfg: &Cfg, o: &Ots, i_tree: &[u8; 16], q: u32, seed: &[u8], c: &[u8], msg: &[u8]) -> Vec<u8> {
    let qd = message_digest(cfg, i_tree, q, c, msg);
    let ds = digits(o, &qd);
    let mut y = Vec::with_capacity(o.p * o.n);
    for (i, a) in ds.iter().enumerate() {
        let x = ots_secret(cfg, i_tree, q, i as u16, seed);
        y.extend_from_slice(&chain(cfg, i_tree, q, i as u16, &x, 0, *a));
    }
    y
}

/// RFC 8554 Algorithm 4b: public key candidate from (C, y[]) and the message
pub fn ots_candidate(cfg: &Cfg, o: &Ots, i_tree: &[u8; 16], q: u32, c: &[u8], y: &[u8], msg: &[u8]) -> Vec<u8> {
    assert_eq!(y.len(), o.p * o.n);
    let qd = message_digest(cfg, i_tree, q, c, msg);
    let ds = digits(o, &qd);
    let top = (1u32 << o.w) - 1;
    let mut buf: Vec<u8> = Vec::with_capacity(22 + o.p * o.n);
    buf.extend_from_slice(i_tree);
    buf.extend_from_slice(&q.to_be_bytes());
    buf.extend_from_slice(&D_PBLC);
    for (i, a) in ds.iter().enumerate() {
        let yi = &y[i * o.n..(i + 1) * o.n];
        buf.extend_from_slice(&chain(cfg, i_tree, q, i as u16, yi, *a, top));
    }
    cfg.alg.hash(&[&buf])
}

#[cfg(test)]
mod tests {
    use super::*;
    #[test]
    fn coef_rfc_examples() {
        // RFC 8554 section 3.1.3, S = 0x1234
        let s = [0x12u8, 0x34];
        assert_eq!(coef(&s, 7, 1), 0);
        assert_eq!(coef(&s, 0, 4), 1);
        assert_eq!(coef(&s, 3, 4), 4);
        assert_eq!(coef(&s, 1, 8), 0x34);
        assert_eq!(coef(&s, 3, 2), 2);
    }
}
