//! What a property driver hands back: counts, samples, violations, reasons for inconclusiveness.

use std::collections::{BTreeMap, HashSet};

use crate::json::J;

#[derive(Clone, Debug)]
pub struct Violation {
    /// precise identity of what failed (input / configuration / call site); known findings are
    /// matched on this string
    pub key: String,
    pub what: String,
    /// everything needed to re-execute the case
    pub replay: J,
    pub count: u64,
}

#[derive(Default)]
pub struct Report {
    pub evaluations: u64,
    distinct: HashSet<u64>,
    /// distinct cases that were de-duplicated locally (disjoint partitions of an enumeration)
    pub distinct_extra: u64,
    pub rule: String,
    pub samples: Vec<J>,
    pub counters: BTreeMap<String, i128>,
    pub violations: Vec<Violation>,
    pub inconclusive: Vec<String>,
    pub exhaustive: Option<bool>,
    pub notes: Vec<String>,
    pub assumptions: Vec<String>,
    pub extra: BTreeMap<String, J>,
    pub max_samples: usize,
}

fn fnv(s: &str) -> u64 {
    let mut h: u64 = 0xcbf2_9ce4_8422_2325;
    for b in s.bytes() {
        h ^= b as u64;
        h = h.wrapping_mul(0x1000_0000_01b3);
    }
    h
}

impl Report {
    pub fn new() -> Report {
        Report { max_samples: 12, ..Default::default() }
    }
    pub fn eval(&mut self) {
        self.evaluations += 1;
    }
    /// record a distinct non-trivial case by its canonical key
    pub fn distinct(&mut self, key: &str) {
        self.distinct.insert(fnv(key));
    }
    pub fn distinct_count(&self) -> u64 {
        self.distinct.len() as u64 + self.distinct_extra
    }
    pub fn count(&mut self, name: &str, by: i128) {
        *self.counters.entry(name.to_string()).or_insert(0) += by;
    }
    pub fn counter(&self, name: &str) -> i128 {
        *self.counters.get(name).unwrap_or(&0)
    }
    pub fn set_max(&mut self, name: &str, v: i128) {
        let e = self.counters.entry(name.to_string()).or_insert(v);
        if v > *e {
            *e = v;
        }
    }
    pub fn sample(&mut self, j: J) {
        if self.samples.len() < self.max_samples {
            self.samples.push(j);
        }
    }
    pub fn violation(&mut self, key: &str, what: &str, replay: J) {
        if let Some(v) = self.violations.iter_mut().find(|v| v.key == key) {
            v.count += 1;
            return;
        }
        self.violations.push(Violation { key: key.to_string(), what: what.to_string(), replay, count: 1 });
    }
    pub fn inconclusive(&mut self, why: &str) {
        if !self.inconclusive.iter().any(|w| w == why) {
            self.inconclusive.push(why.to_string());
        }
    }
    pub fn note(&mut self, s: &str) {
        if !self.notes.iter().any(|w| w == s) {
            self.notes.push(s.to_string());
        }
    }
    pub fn merge(&mut self, o: Report) {
        self.evaluations += o.evaluations;
        self.distinct.extend(o.distinct);
        self.distinct_extra += o.distinct_extra;
        if self.rule.is_empty() {
            self.rule = o.rule;
        }
        for s in o.samples {
            self.sample(s);
        }
        for (k, v) in o.counters {
            if k.starts_with("max_") {
                self.set_max(&k, v);
            } else {
                *self.counters.entry(k).or_insert(0) += v;
            }
        }
        for v in o.violations {
            if let Some(e) = self.violations.iter_mut().find(|e| e.key == v.key) {
                e.count += v.count;
            } else {
                self.violations.push(v);
            }
        }
        for i in o.inconclusive {
            self.inconclusive(&i);
        }
        for n in o.notes {
            self.note(&n);
        }
        for a in o.assumptions {
            if !self.assumptions.contains(&a) {
                self.assumptions.push(a);
            }
        }
        for (k, v) in o.extra {
            self.extra.entry(k).or_insert(v);
        }
        if let Some(e) = o.exhaustive {
            self.exhaustive = Some(self.exhaustive.unwrap_or(true) && e);
        }
    }
    pub fn to_json(&self) -> J {
        let mut c = J::obj();
        for (k, v) in &self.counters {
            c.set(k, J::Int(*v));
        }
        let mut j = J::obj()
            .with("evaluations", J::Int(self.evaluations as i128))
            .with("distinct_nontrivial", J::Int(self.distinct_count() as i128))
            .with("rule", J::s(&self.rule))
            .with("samples", J::Arr(self.samples.clone()))
            .with("counters", c)
            .with(
                "violations",
                J::Arr(
                    self.violations
                        .iter()
                        .map(|v| {
                            J::obj()
                                .with("key", J::s(&v.key))
                                .with("what", J::s(&v.what))
                                .with("count", J::Int(v.count as i128))
                                .with("replay", v.replay.clone())
                        })
                        .collect(),
                ),
            )
            .with("inconclusive", J::Arr(self.inconclusive.iter().map(|s| J::s(s)).collect()))
            .with("notes", J::Arr(self.notes.iter().map(|s| J::s(s)).collect()))
            .with("assumptions", J::Arr(self.assumptions.iter().map(|s| J::s(s)).collect()));
        if let Some(e) = self.exhaustive {
            j.set("exhaustive", J::Bool(e));
        }
        let mut ex = J::obj();
        for (k, v) in &self.extra {
            ex.set(k, v.clone());
        }
        j.set("extra", ex);
        j
    }
}
