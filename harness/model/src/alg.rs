//! Hash selection.  The model calls `sha2::Sha256` / `sha3::Shake256` directly and never goes
//! through the library's `HashChain` wrappers.

use sha2::Digest as _;
use sha3::digest::{ExtendableOutput, Update, XofReader};

#[derive(Clone, Copy, PartialEq, Eq, Hash, Debug, PartialOrd, Ord)]
pub enum Alg {
    Sha256_256,
    Sha256_192,
    Sha256_128,
    Shake256_256,
    Shake256_192,
    Shake256_128,
}

pub const ALL_ALGS: [Alg; 6] = [
    Alg::Sha256_256,
    Alg::Sha256_192,
    Alg::Sha256_128,
    Alg::Shake256_256,
    Alg::Shake256_192,
    Alg::Shake256_128,
];

impl Alg {
    /// output length n (= m) in bytes
    pub fn n(self) -> usize {
        match self {
            Alg::Sha256_256 | Alg::Shake256_256 => 32,
            Alg::Sha256_192 | Alg::Shake256_192 => 24,
            Alg::Sha256_128 | Alg::Shake256_128 => 16,
        }
    }
    pub fn is_shake(self) -> bool {
        matches!(self, Alg::Shake256_256 | Alg::Shake256_192 | Alg::Shake256_128)
    }
    pub fn name(self) -> &'static str {
        match self {
            Alg::Sha256_256 => "sha256_256",
            Alg::Sha256_192 => "sha256_192",
            Alg::Sha256_128 => "sha256_128",
            Alg::Shake256_256 => "shake256_256",
            Alg::Shake256_192 => "shake256_192",
            Alg::Shake256_128 => "shake256_128",
        }
    }
    pub fn from_name(s: &str) -> Option<Alg> {
        ALL_ALGS.iter().copied().find(|a| a.name() == s)
    }
    pub fn index(self) -> usize {
        ALL_ALGS.iter().position(|a| *a == self).unwrap()
    }

    /// H(parts[0] || parts[1] || ...), truncated (SHA-256) or squeezed (SHAKE256) to n bytes.
    pub fn hash(self, parts: &[&[u8]]) -> Vec<u8> {
        let n = self.n();
        if self.is_shake() {
            let mut h = sha3::Shake256::default();
            for p in parts {
                h.update(p);
            }
            let mut out = vec![0u8; n];
            h.finalize_xof().read(&mut out);
            out
        } else {
            let mut h = sha2::Sha256::new();
            for p in parts {
                sha2::Digest::update(&mut h, p);
            }
            let d = h.finalize();
            d[..n].to_vec()
        }
    }
}

/// plain SHA-256 (32 bytes) for fingerprints used by the monitors themselves
pub fn sha256(parts: &[&[u8]]) -> [u8; 32] {
    let mut h = sha2::Sha256::new();
    for p in parts {
        sha2::Digest::update(&mut h, p);
    }
    let d = h.finalize();
    let mut o = [0u8; 32];
    o.copy_from_slice(&d);
    o
}
