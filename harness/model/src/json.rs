//! Minimal JSON value + writer (no dependency on serde so that the harness builds from the
//! crates the repository itself needs).

use std::collections::BTreeMap;

#[derive(Clone, Debug, PartialEq)]
pub enum J {
    Null,
    Bool(bool),
    Int(i128),
    Num(f64),
    Str(String),
    Arr(Vec<J>),
    Obj(BTreeMap<String, J>),
}

impl J {
    pub fn obj() -> J {
        J::Obj(BTreeMap::new())
    }
    pub fn set(&mut self, k: &str, v: J) -> &mut J {
        if let J::Obj(m) = self {
            m.insert(k.to_string(), v);
        }
        self
    }
    pub fn with(mut self, k: &str, v: J) -> J {
        self.set(k, v);
        self
    }
    pub fn s(x: &str) -> J {
        J::Str(x.to_string())
    }
    pub fn i<T: Into<i128>>(x: T) -> J {
        J::Int(x.into())
    }
    pub fn u(x: usize) -> J {
        J::Int(x as i128)
    }
    pub fn hex(b: &[u8]) -> J {
        J::Str(hex(b))
    }
    /// hex, abbreviated in the middle when long
    pub fn hexa(b: &[u8]) -> J {
        if b.len() <= 48 {
            J::Str(hex(b))
        } else {
            J::Str(format!("{}..({} bytes)..{}", hex(&b[..16]), b.len(), hex(&b[b.len() - 8..])))
        }
    }
    pub fn write(&self, out: &mut String) {
        match self {
            J::Null => out.push_str("null"),
            J::Bool(b) => out.push_str(if *b { "true" } else { "false" }),
            J::Int(i) => out.push_str(&i.to_string()),
            J::Num(f) => {
                if f.is_finite() {
                    out.push_str(&format!("{}", f))
                } else {
                    out.push_str("null")
                }
            }
            J::Str(s) => write_str(s, out),
            J::Arr(a) => {
                out.push('[');
                for (i, x) in a.iter().enumerate() {
                    if i > 0 {
                        out.push(',');
                    }
                    x.write(out);
                }
                out.push(']');
            }
            J::Obj(m) => {
                out.push('{');
                for (i, (k, v)) in m.iter().enumerate() {
                    if i > 0 {
                        out.push(',');
                    }
                    write_str(k, out);
                    out.push(':');
                    v.write(out);
                }
                out.push('}');
            }
        }
    }
    pub fn to_string(&self) -> String {
        let mut s = String::new();
        self.write(&mut s);
        s
    }
}

fn write_str(s: &str, out: &mut String) {
    out.push('"');
    for c in s.chars() {
        match c {
            '"' => out.push_str("\\\""),
            '\\' => out.push_str("\\\\"),
            '\n' => out.push_str("\\n"),
            '\r' => out.push_str("\\r"),
            '\t' => out.push_str("\\t"),
            c if (c as u32) < 0x20 => out.push_str(&format!("\\u{:04x}", c as u32)),
            c => out.push(c),
        }
    }
    out.push('"');
}

pub fn hex(b: &[u8]) -> String {
    let mut s = String::with_capacity(b.len() * 2);
    for x in b {
        s.push_str(&format!("{:02x}", x));
    }
    s
}

pub fn unhex(s: &str) -> Option<Vec<u8>> {
    let s = s.trim();
    if s.len() % 2 != 0 {
        return None;
    }
    (0..s.len() / 2).map(|i| u8::from_str_radix(&s[2 * i..2 * i + 2], 16).ok()).collect()
}
