//! Calibration of the oracle itself.  A failure here is ORACLE-BROKEN (inconclusive), never a
//! violation of a property of the library.

use std::process::Command;

use model::hss::{self, UpperC};
use model::json::unhex;
use model::lms::TreeCache;
use model::{Alg, Cfg, LsMode, Rng};

use crate::common::{levels, Ctx, RefTool};

fn read_hex(ctx: &Ctx, name: &str) -> Result<Vec<u8>, String> {
    let p = ctx.ref_tool.parent().unwrap().join(name);
    let s = std::fs::read_to_string(&p).map_err(|e| format!("{}: {e}", p.display()))?;
    unhex(&s).ok_or_else(|| format!("{}: bad hex", p.display()))
}

pub fn run(ctx: &Ctx) -> Result<Vec<String>, String> {
    let mut done = Vec::new();
    let mut cache = TreeCache::new();

    // 1. RFC 8554 Appendix F test cases under the strict model without the test tree height
    for k in [1, 2] {
        let pk = read_hex(ctx, &format!("rfc{k}.public_key.hex"))?;
        let msg = read_hex(ctx, &format!("rfc{k}.message.hex"))?;
        let sig = read_hex(ctx, &format!("rfc{k}.signature.hex"))?;
        let cfg = Cfg { alg: Alg::Sha256_256, ls: LsMode::Rfc, h2: false };
        if !hss::verify(&cfg, &msg, &sig, &pk) {
            return Err(format!("model rejects RFC 8554 test case {k}"));
        }
        let mut bad = sig.clone();
        let mid = bad.len() / 2;
        bad[mid] ^= 1;
        if hss::verify(&cfg, &msg, &bad, &pk) {
            return Err(format!("model accepts a corrupted RFC 8554 test case {k}"));
        }
        let mut m2 = msg.clone();
        m2[0] ^= 0x80;
        if hss::verify(&cfg, &m2, &sig, &pk) {
            return Err(format!("model accepts RFC test case {k} for another message"));
        }
        let mut longer = sig.clone();
        longer.push(0);
        if hss::verify(&cfg, &msg, &longer, &pk) {
            return Err("model accepts trailing bytes".into());
        }
    }
    done.push("rfc8554 appendix F vectors 1,2 verify under the model; corrupted ones do not".into());

    // 2. hash primitives against OpenSSL (python hashlib)
    {
        let mut rng = Rng::new(0xca11b).fork("hashlib");
        let mut inputs: Vec<Vec<u8>> = vec![vec![], vec![0u8; 55], vec![0xffu8; 64]];
        for len in [1usize, 31, 56, 119, 136, 137, 300] {
            inputs.push(rng.bytes(len));
        }
        let script = "import sys,hashlib\nfor l in sys.stdin:\n b=bytes.fromhex(l.strip())\n print(hashlib.sha256(b).hexdigest(), hashlib.shake_256(b).hexdigest(32))\n";
        let input = inputs.iter().map(|b| model::json::hex(b)).collect::<Vec<_>>().join("\n") + "\n";
        let mut child = Command::new("python3")
            .args(["-c", script])
            .stdin(std::process::Stdio::piped())
            .stdout(std::process::Stdio::piped())
            .spawn()
            .map_err(|e| format!("python3: {e}"))?;
        {
            use std::io::Write;
            child.stdin.take().unwrap().write_all(input.as_bytes()).map_err(|e| e.to_string())?;
        }
        let out = child.wait_with_output().map_err(|e| e.to_string())?;
        let text = String::from_utf8_lossy(&out.stdout);
        let lines: Vec<&str> = text.lines().collect();
        if lines.len() != inputs.len() {
            return Err("hashlib helper produced no output".into());
        }
        for (inp, line) in inputs.iter().zip(lines) {
            let mut it = line.split_whitespace();
            let sha = unhex(it.next().unwrap_or("")).ok_or("hashlib hex")?;
            let shake = unhex(it.next().unwrap_or("")).ok_or("hashlib hex")?;
            for alg in model::ALL_ALGS {
                let got = alg.hash(&[inp]);
                let want = if alg.is_shake() { &shake[..alg.n()] } else { &sha[..alg.n()] };
                if got != want {
                    return Err(format!("{} disagrees with hashlib on a {}-byte input", alg.name(), inp.len()));
                }
            }
        }
        done.push(format!("sha2/sha3 crates = OpenSSL on {} inputs x 6 variants", inputs.len()));
    }

    // 3..6 the reference tool
    let tool = match RefTool::new(ctx, "calib") {
        Some(t) => t,
        None => return Err(format!("reference tool {} not found", ctx.ref_tool.display())),
    };
    let cfg = Cfg { alg: Alg::Sha256_256, ls: LsMode::Rfc, h2: false };
    let mut rng = Rng::new(0xca11b).fork("tool");
    let shapes: Vec<Vec<(u32, u32)>> = vec![vec![(5, 8)], vec![(5, 4), (5, 8)], vec![(5, 8), (5, 2), (5, 8)], vec![(10, 8)]];
    for (si, shape) in shapes.iter().enumerate() {
        let lv = levels(shape);
        let seed = rng.bytes(32);
        let aux_len = 700;
        let (prv, pubk, aux) = tool.genkey("c", &lv, &seed, aux_len).ok_or("reference tool genkey failed")?;
        // key files
        if prv != hss::make_blob(0, &lv, &seed) {
            return Err(format!("model private key blob != tool .prv for shape {shape:?}"));
        }
        let mpk = hss::public_key(&cfg, &mut cache, &lv, &seed);
        if mpk != pubk {
            return Err(format!("model public key != tool .pub for shape {shape:?}"));
        }
        // aux
        let tid = hss::root_tree_id(&cfg, &seed);
        let o = model::params::ots(&cfg, model::params::code_of_w(lv[0].w)).unwrap();
        let top = cache.get(&cfg, &o, lv[0].h, &tid.i, &tid.seed);
        let maux = model::aux::expected_aux(&cfg, aux_len, &top, &seed).unwrap_or_default();
        if maux != aux {
            return Err(format!("model aux data != tool .aux for shape {shape:?} ({} vs {} bytes)", maux.len(), aux.len()));
        }
        // counter interpretation + signatures, at an edited counter
        let total = hss::total_leaves(&lv) as u64;
        let counter = if si == 0 { 0 } else { rng.below(total - 1) };
        let mut prv2 = prv.clone();
        prv2[..8].copy_from_slice(&counter.to_be_bytes());
        tool.write("c.prv", &prv2);
        let _ = std::fs::remove_file(tool.path("c.aux"));
        let msg = rng.bytes(40 + si);
        tool.write("msg", &msg);
        let tsig = tool.sign("c", "msg").ok_or("reference tool sign failed")?;
        if !hss::verify(&cfg, &msg, &tsig, &pubk) {
            return Err(format!("model verifier rejects a reference-tool signature (shape {shape:?}, counter {counter})"));
        }
        let lay = hss::parse_sig(&cfg, &tsig).ok_or("model cannot parse tool signature")?;
        let qs: Vec<u32> = lay.sigs.iter().map(|s| u32::from_be_bytes(tsig[s.off_q..s.off_q + 4].try_into().unwrap())).collect();
        if qs != hss::leaf_digits(&lv, counter) {
            return Err(format!("mixed-radix rule != tool's leaf indices at counter {counter} for {shape:?}: {qs:?}"));
        }
        let adv = tool.read("c.prv").ok_or("read .prv")?;
        if adv[..8] != (counter + 1).to_be_bytes() {
            return Err("tool did not advance the counter by one".into());
        }
        // model signer (hash-sigs randomizer rule) must reproduce the tool's signature exactly
        let b = hss::parse_blob(&cfg, &prv2).ok_or("parse blob")?;
        let msig = hss::sign(&cfg, &mut cache, &b, &msg, UpperC::ParentSeed, None);
        if msig != tsig {
            return Err(format!("model signer (parent-seed randomizer rule) != tool signature for {shape:?} at counter {counter}"));
        }
        // and the tool must accept the model's signature under the library's randomizer rule
        let msig2 = hss::sign(&cfg, &mut cache, &b, &msg, UpperC::ChildSeed, None);
        if tool.verify_bytes("x", &msg, &msig2, &pubk) != Some(true) {
            return Err("reference tool rejects a model signature".into());
        }
        let mut bad = msig2.clone();
        let at = rng.range(4, bad.len());
        bad[at] ^= 0x10;
        if tool.verify_bytes("y", &msg, &bad, &pubk) != Some(false) {
            return Err("reference tool accepts a corrupted signature".into());
        }
    }
    done.push(format!("model = hash-sigs tool on {} shapes: .prv, .pub, .aux, leaf indices at edited counters, signatures byte-identical, cross verification", shapes.len()));
    Ok(done)
}
