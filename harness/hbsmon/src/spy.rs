//! Photographs heap blocks at the moment they are released, by interposing the C library's
//! `free` (the executable's definition wins over libc's; the real one is reached through
//! `dlsym(RTLD_NEXT, "free")`).
//!
//! C16 uses it to look at a secret-bearing value that lived in a `Box` *when the box is freed*:
//! to the optimiser `drop(Box<T>)` is an ordinary drop followed by an ordinary deallocation, so a
//! wipe made of plain stores is dead and gets removed exactly as it would in a user's program —
//! whereas a harness that reads the value's memory after `drop_in_place` keeps such stores alive
//! and can never see that defect.  The block is still a live allocation inside `free`, so reading
//! it is well defined; the optimiser knows nothing about this reader.  (A `#[global_allocator]`
//! in this crate does NOT work for the purpose: its `dealloc` is inlined into the drop site and
//! the reads keep the stores alive — measured, see DESIGN.md 8.2.)
//!
//! Capturing is per thread, off by default, and uses a fixed thread-local buffer (nothing is
//! allocated inside `free`).  Compiled only with the cargo feature `spyfree` (on by default; off
//! for the ThreadSanitizer build, whose runtime brings its own `free`) and never under Miri.

#[cfg(all(feature = "spyfree", not(miri), target_os = "linux"))]
mod imp {
    use std::cell::{Cell, UnsafeCell};
    use std::ffi::c_void;
    use std::sync::atomic::{AtomicUsize, Ordering};

    const CAP: usize = 96 * 1024;

    struct State {
        on: Cell<bool>,
        len: Cell<usize>,
        blocks: Cell<usize>,
        min_size: Cell<usize>,
        buf: UnsafeCell<[u8; CAP]>,
    }

    thread_local! {
        static STATE: State = const {
            State { on: Cell::new(false), len: Cell::new(0), blocks: Cell::new(0), min_size: Cell::new(0), buf: UnsafeCell::new([0u8; CAP]) }
        };
    }

    extern "C" {
        fn dlsym(handle: *mut c_void, symbol: *const u8) -> *mut c_void;
        fn malloc_usable_size(p: *mut c_void) -> usize;
    }

    static REAL_FREE: AtomicUsize = AtomicUsize::new(0);

    #[inline(never)]
    unsafe fn real_free() -> unsafe extern "C" fn(*mut c_void) {
        let mut f = REAL_FREE.load(Ordering::Relaxed);
        if f == 0 {
            // RTLD_NEXT == (void*) -1
            f = dlsym(usize::MAX as *mut c_void, b"free\0".as_ptr()) as usize;
            if f == 0 {
                std::process::abort();
            }
            REAL_FREE.store(f, Ordering::Relaxed);
        }
        std::mem::transmute::<usize, unsafe extern "C" fn(*mut c_void)>(f)
    }

    /// Replaces the C library's `free` for the whole process.
    #[no_mangle]
    pub unsafe extern "C" fn free(p: *mut c_void) {
        if !p.is_null() {
            let _ = STATE.try_with(|s| {
                if s.on.get() {
                    let size = malloc_usable_size(p);
                    if size >= s.min_size.get() {
                        let at = s.len.get();
                        let n = size.min(CAP - at);
                        let dst = (*s.buf.get()).as_mut_ptr().add(at);
                        let src = p as *const u8;
                        for i in 0..n {
                            dst.add(i).write(std::ptr::read_volatile(src.add(i)));
                        }
                        s.len.set(at + n);
                        s.blocks.set(s.blocks.get() + 1);
                    }
                }
            });
        }
        real_free()(p)
    }

    pub fn available() -> bool {
        true
    }

    pub fn start(min_size: usize) {
        STATE.with(|s| {
            s.len.set(0);
            s.blocks.set(0);
            s.min_size.set(min_size);
            s.on.set(true);
        });
    }

    pub fn stop() -> (usize, Vec<u8>) {
        STATE.with(|s| {
            s.on.set(false);
            let n = s.len.get();
            let blocks = s.blocks.get();
            let bytes = unsafe { (&(*s.buf.get()))[..n].to_vec() };
            (blocks, bytes)
        })
    }
}

#[cfg(not(all(feature = "spyfree", not(miri), target_os = "linux")))]
mod imp {
    pub fn available() -> bool {
        false
    }
    pub fn start(_min_size: usize) {}
    pub fn stop() -> (usize, Vec<u8>) {
        (0, Vec::new())
    }
}

/// is the `free` interposer compiled into this binary?
pub fn available() -> bool {
    imp::available()
}

/// start photographing blocks of at least `min_size` usable bytes freed by this thread
pub fn start(min_size: usize) {
    imp::start(min_size)
}

/// stop; returns (number of blocks seen, their contents at the time of release, concatenated)
pub fn stop() -> (usize, Vec<u8>) {
    imp::stop()
}
