//! Plumbing shared by the property drivers.

use std::path::{Path, PathBuf};
use std::process::Command;
use std::sync::atomic::{AtomicUsize, Ordering};
use std::sync::Mutex;

use model::lms::TreeCache;
use model::{Alg, Cfg, Level, Report, Rng, J};

#[derive(Clone, Copy, PartialEq, Eq, Debug)]
pub enum Tier {
    Quick,
    Thorough,
}

#[derive(Clone)]
pub struct Ctx {
    pub tier: Tier,
    pub seed: u64,
    pub threads: usize,
    pub scratch: PathBuf,
    pub ref_tool: PathBuf,
    pub replay: Option<PathBuf>,
    /// scale factor for workload sizes (VERIF_SCALE, default 1.0)
    pub scale: f64,
    /// running under the Miri interpreter (cfg(miri) or VERIF_MIRI): drivers switch to their
    /// small, hashing-poor subsets
    pub miri: bool,
    /// this process handles the items i with i % shards == shard
    pub shard: usize,
    pub shards: usize,
}

static MIRI_MODE: std::sync::atomic::AtomicBool = std::sync::atomic::AtomicBool::new(false);

/// process-wide copy of `Ctx::miri` for code that has no `Ctx` at hand
pub fn miri_mode() -> bool {
    MIRI_MODE.load(Ordering::Relaxed)
}

pub fn set_miri_mode(on: bool) {
    MIRI_MODE.store(on, Ordering::Relaxed);
}

impl Ctx {
    pub fn quick(&self) -> bool {
        self.tier == Tier::Quick
    }
    /// pick a workload size by tier, scaled
    pub fn size(&self, quick: usize, thorough: usize) -> usize {
        let base = if self.quick() { quick } else { thorough };
        ((base as f64 * self.scale).ceil() as usize).max(1)
    }
    pub fn rng(&self, tag: &str) -> Rng {
        Rng::new(self.seed).fork(tag)
    }
    /// is item `i` of a sharded workload handled by this process?
    pub fn mine(&self, i: usize) -> bool {
        self.shards <= 1 || i % self.shards == self.shard
    }
}

/// per-worker state
pub struct Worker {
    pub id: usize,
    pub report: Report,
    pub cache: TreeCache,
}

pub const STACK: usize = 256 << 20;

/// Run `f` over all items on `threads` worker threads with large stacks; returns the merged report.
pub fn par_run<T: Send>(ctx: &Ctx, items: Vec<T>, f: impl Fn(T, &mut Worker) + Sync) -> Report {
    let n = items.len();
    let slots: Vec<Mutex<Option<T>>> = items.into_iter().map(|t| Mutex::new(Some(t))).collect();
    let next = AtomicUsize::new(0);
    let threads = ctx.threads.min(n.max(1));
    let reports: Mutex<Vec<Report>> = Mutex::new(Vec::new());
    std::thread::scope(|s| {
        for id in 0..threads {
            let slots = &slots;
            let next = &next;
            let f = &f;
            let reports = &reports;
            std::thread::Builder::new()
                .stack_size(STACK)
                .spawn_scoped(s, move || {
                    let mut w = Worker { id, report: Report::new(), cache: TreeCache::new() };
                    loop {
                        let i = next.fetch_add(1, Ordering::Relaxed);
                        if i >= n {
                            break;
                        }
                        let item = slots[i].lock().unwrap().take().unwrap();
                        // a panic of the harness itself (not of the library: those are caught at
                        // the call) must not take the other items' observations with it
                        let wr = &mut w;
                        if let Err(p) = crate::libcall::guard(move || f(item, wr)) {
                            w.report.inconclusive(&format!("HARNESS: a driver work item panicked at {}: {}", p.location, p.message));
                        }
                    }
                    w.report.count("model_tree_builds", w.cache.builds as i128);
                    reports.lock().unwrap().push(w.report);
                })
                .expect("spawn worker");
        }
    });
    let mut total = Report::new();
    for r in reports.into_inner().unwrap() {
        total.merge(r);
    }
    total
}

/// run one closure on a big-stack thread
pub fn on_big_stack<R: Send>(f: impl FnOnce() -> R + Send) -> R {
    std::thread::scope(|s| {
        std::thread::Builder::new().stack_size(STACK).spawn_scoped(s, f).expect("spawn").join().expect("join")
    })
}

/// the 4-leaf test height where the library offers it (feature verif_hooks), else the smallest
/// production height
pub fn h2() -> u32 {
    if cfg!(feature = "hooks") {
        2
    } else {
        5
    }
}

/// Limits of the build under test when it is not the default one (stage `constrained`):
/// VERIF_BUILD_LIMITS = "<levels>;<h,h,..>;<w,w,..>" as given to HBS_LMS_* at build time.
pub fn build_limits() -> Option<(usize, Vec<u32>, Vec<u32>)> {
    let v = std::env::var("VERIF_BUILD_LIMITS").ok()?;
    let mut it = v.split(';');
    let levels: usize = it.next()?.trim().parse().ok()?;
    let hs: Vec<u32> = it.next()?.split(',').filter_map(|x| x.trim().parse().ok()).collect();
    let ws: Vec<u32> = it.next()?.split(',').filter_map(|x| x.trim().parse().ok()).collect();
    Some((levels, hs, ws))
}

/// is this parameter list inside the limits of the build under test (documented rule: length <=
/// levels, h_i <= maximum height of level i, w_i >= minimum Winternitz parameter of level i)
pub fn in_build_limits(lv: &[Level]) -> bool {
    match build_limits() {
        None => true,
        Some((levels, hs, ws)) => lv.len() <= levels && lv.iter().enumerate().all(|(i, l)| i < hs.len() && i < ws.len() && l.h <= hs[i] && l.w >= ws[i]),
    }
}

/// (height, w) pairs -> levels; in a hooks-off build the 4-leaf height is replaced by H5
pub fn levels(spec: &[(u32, u32)]) -> Vec<Level> {
    spec.iter().map(|(h, w)| Level { h: if *h == 2 { h2() } else { *h }, w: *w }).collect()
}

pub const WS: [u32; 4] = [1, 2, 4, 8];

/// message lengths at the SHA-256 padding and SHAKE256 rate boundaries, plus a few large ones
pub fn message_lengths(ctx: &Ctx) -> Vec<usize> {
    let mut v = vec![0, 1, 31, 32, 33, 55, 56, 64, 119, 120, 135, 136, 137, 4096, 65535, 65536, 65537];
    if !ctx.quick() {
        v.push(1 << 20);
        v.push((1 << 20) + 3);
    }
    v
}

/// model configuration mirroring the library build under test: LMS type code 1 (4 leaves) is a
/// valid type only when the library is built with its verification hooks
pub fn lcfg(alg: Alg) -> Cfg {
    let mut c = Cfg::lib(alg);
    c.h2 = cfg!(feature = "hooks");
    c
}

pub fn case_json(alg: Alg, levels: &[Level], seed: &[u8], counter: u64, msg: &[u8]) -> J {
    J::obj()
        .with("hash", J::s(alg.name()))
        .with("levels", J::s(&model::params::levels_to_string(levels)))
        .with("seed", J::hex(seed))
        .with("counter", J::Int(counter as i128))
        .with("message", J::hexa(msg))
        .with("message_len", J::u(msg.len()))
}

pub fn case_json_full(alg: Alg, levels: &[Level], seed: &[u8], counter: u64, msg: &[u8]) -> J {
    let mut j = case_json(alg, levels, seed, counter, msg);
    if msg.len() <= 4096 {
        j.set("message", J::hex(msg));
    }
    j
}

// -------------------------------------------------------------------------------------------
// the hash-sigs reference tool

pub struct RefTool {
    pub bin: PathBuf,
    pub dir: PathBuf,
}

fn level_spec(levels: &[Level]) -> String {
    levels.iter().map(|l| format!("{}/{}", l.h, l.w)).collect::<Vec<_>>().join(",")
}

impl RefTool {
    pub fn new(ctx: &Ctx, tag: &str) -> Option<RefTool> {
        if !ctx.ref_tool.exists() {
            return None;
        }
        let dir = ctx.scratch.join(format!("ref-{}-{}", tag, std::process::id()));
        std::fs::create_dir_all(&dir).ok()?;
        Some(RefTool { bin: ctx.ref_tool.clone(), dir })
    }
    fn run(&self, args: &[&str]) -> Option<String> {
        let out = Command::new(&self.bin).args(args).current_dir(&self.dir).output().ok()?;
        Some(String::from_utf8_lossy(&out.stdout).to_string() + &String::from_utf8_lossy(&out.stderr))
    }
    pub fn path(&self, name: &str) -> PathBuf {
        self.dir.join(name)
    }
    /// genkey with a given seed; returns (prv, pub, aux)
    pub fn genkey(&self, name: &str, levels: &[Level], seed: &[u8], aux_len: usize) -> Option<(Vec<u8>, Vec<u8>, Vec<u8>)> {
        let spec = format!("{}:{}", level_spec(levels), aux_len);
        let seed_arg = format!("seed={}", model::json::hex(seed));
        let _ = std::fs::remove_file(self.path(&format!("{name}.aux")));
        let out = self.run(&["genkey", name, &spec, &seed_arg, "i=00000000000000000000000000000000"])?;
        if !out.contains("Success") {
            return None;
        }
        let prv = std::fs::read(self.path(&format!("{name}.prv"))).ok()?;
        let pubk = std::fs::read(self.path(&format!("{name}.pub"))).ok()?;
        let aux = std::fs::read(self.path(&format!("{name}.aux"))).unwrap_or_default();
        Some((prv, pubk, aux))
    }
    pub fn write(&self, file: &str, data: &[u8]) -> bool {
        std::fs::write(self.path(file), data).is_ok()
    }
    pub fn read(&self, file: &str) -> Option<Vec<u8>> {
        std::fs::read(self.path(file)).ok()
    }
    /// sign `file` with key `name`; returns the signature and the advanced private key
    pub fn sign(&self, name: &str, file: &str) -> Option<Vec<u8>> {
        let _ = std::fs::remove_file(self.path(&format!("{file}.sig")));
        let _ = self.run(&["sign", name, file])?;
        self.read(&format!("{file}.sig"))
    }
    /// verify file + file.sig against name.pub
    pub fn verify(&self, name: &str, file: &str) -> Option<bool> {
        let out = self.run(&["verify", name, file])?;
        if out.contains("Signature verified") {
            Some(true)
        } else if out.contains("NOT verified") || out.contains("not verified") || out.contains("Error") || out.contains("rror") {
            Some(false)
        } else {
            None
        }
    }
    /// verify arbitrary (msg, sig, pk) bytes
    pub fn verify_bytes(&self, tag: &str, msg: &[u8], sig: &[u8], pk: &[u8]) -> Option<bool> {
        let name = format!("v{tag}");
        let file = format!("m{tag}");
        self.write(&format!("{name}.pub"), pk);
        self.write(&file, msg);
        self.write(&format!("{file}.sig"), sig);
        self.verify(&name, &file)
    }
}

impl Drop for RefTool {
    fn drop(&mut self) {
        let _ = std::fs::remove_dir_all(&self.dir);
    }
}

pub fn write_file(p: &Path, s: &str) {
    if let Some(d) = p.parent() {
        let _ = std::fs::create_dir_all(d);
    }
    std::fs::write(p, s).expect("write file");
}
