//! C05: a key signs exactly 2^(sum of heights) times, then is wiped and refuses.
//!
//! (i) end to end: complete lifetimes with `get_lifetime` queried before every signature; the
//!     callback argument of the last signature must be the wiped key; afterwards sign and
//!     get_lifetime must fail without invoking the callback or releasing anything;
//! (ii) pure accounting through the hook accessors on every list of 1..8 heights over
//!     {2,5,10,15,20,25} with sum(h) <= 63 x boundary counters.

use model::hss;
use model::{Alg, Level, Report, J};

use crate::common::{levels, par_run, Ctx, Worker};
use crate::libcall::{self, Cb, Out, SignEntry};
use crate::props::arith::{self, Mode};
use crate::props::shared;

const WITH_H2: [u32; 6] = [2, 5, 10, 15, 20, 25];

struct Walk {
    alg: Alg,
    levels: Vec<Level>,
    seed: Vec<u8>,
    /// query the lifetime before every signature (true) or only around roll-overs (false)
    every: bool,
}

fn run_walk(wk: Walk, w: &mut Worker) {
    let lvs = model::params::levels_to_string(&wk.levels);
    let n = wk.alg.n();
    let key = |what: &str| format!("C05:{what}:{}:{}", wk.alg.name(), lvs);
    let replay = |counter: u64, blob: &[u8]| shared::replay_doc("C05", wk.alg, &wk.levels, &wk.seed, counter, &[]).with("private_key", J::hex(blob));
    let kp = match libcall::keygen(wk.alg, &wk.levels, &wk.seed, None) {
        Out::Ok(k) => k,
        other => {
            w.report.violation(&key("keygen"), &format!("keygen failed: {}", other.describe()), J::Null);
            return;
        }
    };
    let total = hss::total_leaves(&wk.levels) as u64;
    let mut blob = kp.sk.clone();
    let mut released = 0u64;
    for counter in 0..total {
        let near_rollover = crate::props::c01::rollover_level(&wk.levels, counter).is_some()
            || crate::props::c01::rollover_level(&wk.levels, counter + 1).is_some()
            || counter == 0
            || counter + 1 == total;
        if wk.every || near_rollover {
            w.report.eval();
            let lt = libcall::lifetime(wk.alg, &blob);
            w.report.count("lifetime_queries", 1);
            if lt != Out::Ok(total - counter) {
                w.report.violation(
                    &key(if counter == 0 { "fresh_lifetime" } else { "lifetime_step" }),
                    &format!("after {counter} released signatures get_lifetime returns {:?}, expected {}", lt.describe_val(), total - counter),
                    replay(counter, &blob),
                );
            }
            w.report.distinct(&format!("{}|{}|{}", wk.alg.name(), lvs, counter));
        }
        if counter + 1 == total {
            // the last leaf with a storage layer that refuses: nothing may be released, and the
            // key must stay where it is
            let refused = libcall::sign_bytes(wk.alg, &blob, b"c05 refused", Cb::Refuse, None);
            w.report.eval();
            if refused.result.is_ok() {
                w.report.violation(&key("released_at_last_leaf_although_refused"), "the signature that uses the last leaf was released although the key update was refused (the stored key still has a lifetime of 1)", replay(counter, &blob));
            }
        }
        let entry = if counter % 3 == 1 { SignEntry::TrySign } else { SignEntry::Bytes };
        let rec = match entry {
            SignEntry::Bytes => libcall::sign_bytes(wk.alg, &blob, b"c05", Cb::Accept, None),
            e => libcall::sign_key(wk.alg, &blob, b"c05", e, None),
        };
        let next = match entry {
            SignEntry::Bytes => rec.cb_args.first().cloned(),
            _ => rec.key_after.clone(),
        };
        if !rec.result.is_ok() {
            w.report.violation(&key("early_refusal"), &format!("signature #{} of {total} was refused: {}", counter + 1, rec.result.describe()), replay(counter, &blob));
            return;
        }
        released += 1;
        let next = match next {
            Some(nb) => nb,
            None => {
                w.report.violation(&key("no_successor"), "signature released without handing over a successor key", replay(counter, &blob));
                return;
            }
        };
        if counter + 1 == total {
            // the signature that uses the last leaf hands over the wiped key
            w.report.eval();
            w.report.count("exhaustions", 1);
            if !hss::is_wiped(&next, n) {
                let what = if next.len() != 16 + n {
                    "length changed"
                } else if next[..8].iter().any(|b| *b != 0) {
                    "counter not zero"
                } else if next[16..].iter().any(|b| *b != 0) {
                    "seed not cleared"
                } else {
                    "parameter bytes not cleared"
                };
                w.report.violation(&key(&format!("not_wiped:{}", what.replace(' ', "_"))), &format!("key handed over with the last signature is not wiped ({what}): {}", model::json::hex(&next)), replay(counter, &blob));
            }
            if w.report.samples.len() < 5 {
                w.report.sample(J::obj().with("hash", J::s(wk.alg.name())).with("levels", J::s(&lvs)).with("signatures", J::Int(released as i128)).with("key_after_last_signature", J::hex(&next)));
            }
        }
        blob = next;
    }
    w.report.count("released_signatures", released as i128);
    w.report.count("lifetimes_walked", 1);
    // from then on: everything fails, nothing is invoked or released
    for attempt in 0..3 {
        for entry in [SignEntry::Bytes, SignEntry::TrySign, SignEntry::TrySignAux] {
            w.report.eval();
            let rec = match entry {
                SignEntry::Bytes => libcall::sign_bytes(wk.alg, &blob, b"after", if attempt == 1 { Cb::Refuse } else { Cb::Accept }, None),
                e => libcall::sign_key(wk.alg, &blob, b"after", e, None),
            };
            w.report.count("calls_after_exhaustion", 1);
            match &rec.result {
                Out::Ok(_) => w.report.violation(&key("signs_after_exhaustion"), &format!("signature #{} released by {entry:?}", total + 1 + attempt), replay(total, &blob)),
                Out::Panic(p) => w.report.violation(&key("panic_after_exhaustion"), &format!("{entry:?} on the exhausted key panicked at {}", p.site()), replay(total, &blob)),
                Out::Err => {}
            }
            if !rec.cb_args.is_empty() {
                w.report.violation(&key("callback_after_exhaustion"), "update callback invoked on the exhausted key", replay(total, &blob));
            }
            if let Some(after) = &rec.key_after {
                if *after != blob {
                    w.report.violation(&key("key_changed_after_exhaustion"), "in-memory key changed by a failing call on the exhausted key", replay(total, &blob));
                }
            }
        }
        w.report.eval();
        match libcall::lifetime(wk.alg, &blob) {
            Out::Err => {}
            other => w.report.violation(&key("lifetime_after_exhaustion"), &format!("get_lifetime on the exhausted key returned {}", other.describe_val()), replay(total, &blob)),
        }
    }
}

/// The same accounting on ONE long-lived SigningKey object (the object keygen returned, or one
/// loaded once from bytes), used up through try_sign with a lifetime query before every signature
/// and further calls after the end.
fn run_object_walk(wk: Walk, from_keygen: bool, w: &mut Worker) {
    use crate::libcall::{KeyObs, KeyOp};
    let lvs = model::params::levels_to_string(&wk.levels);
    let n = wk.alg.n();
    let total = hss::total_leaves(&wk.levels) as u64;
    let key = |what: &str| format!("C05:object:{what}:{}:{}:{}", wk.alg.name(), lvs, if from_keygen { "from-keygen" } else { "from-bytes" });
    let mut ops: Vec<KeyOp> = Vec::new();
    for i in 0..total {
        ops.push(KeyOp::Lifetime);
        ops.push(if i % 2 == 0 { KeyOp::TrySign(format!("object walk {i}").into_bytes()) } else { KeyOp::TrySignAuxNone(format!("object walk {i}").into_bytes()) });
    }
    ops.push(KeyOp::Bytes);
    for _ in 0..2 {
        ops.push(KeyOp::Lifetime);
        ops.push(KeyOp::TrySign(b"after the end".to_vec()));
    }
    ops.push(KeyOp::Bytes);
    let start = hss::make_blob(0, &wk.levels, &wk.seed);
    let replay = || shared::replay_doc("C05", wk.alg, &wk.levels, &wk.seed, 0, &[]).with("object", J::s(if from_keygen { "SigningKey returned by keygen" } else { "SigningKey::from_bytes(fresh key)" }));
    let (_, obs) = match libcall::key_object_session(wk.alg, &wk.levels, &wk.seed, from_keygen, &start, &ops) {
        Some(x) => x,
        None => {
            w.report.violation(&key("create"), "the signing key object could not be created", replay());
            return;
        }
    };
    let cfg = crate::common::lcfg(wk.alg);
    let vk = hss::public_key(&cfg, &mut w.cache, &wk.levels, &wk.seed);
    let mut k = 0usize;
    for i in 0..total {
        w.report.eval();
        if obs[k] != KeyObs::Lifetime(Out::Ok(total - i)) {
            w.report.violation(&key("lifetime_step"), &format!("long-lived key object: after {i} signatures get_lifetime returns {:?}, expected {}", obs[k], total - i), replay());
        }
        match &obs[k + 1] {
            KeyObs::Signed(Out::Ok(sig)) => {
                let msg = format!("object walk {i}").into_bytes();
                if !hss::verify(&cfg, &msg, sig, &vk) {
                    w.report.violation(&key("invalid_signature"), &format!("long-lived key object: signature #{} does not verify", i + 1), replay());
                }
            }
            other => {
                w.report.violation(&key("early_refusal"), &format!("long-lived key object: signature #{} of {total} was not released: {other:?}", i + 1), replay());
                return;
            }
        }
        w.report.distinct(&format!("object|{}|{}|{}|{}", wk.alg.name(), lvs, from_keygen, i));
        k += 2;
    }
    w.report.count("object_walk_signatures", total as i128);
    // after the last leaf
    if let KeyObs::Bytes(b) = &obs[k] {
        w.report.eval();
        if !hss::is_wiped(b, n) {
            w.report.violation(&key("not_wiped"), &format!("long-lived key object: bytes after the last signature are not the wiped key: {}", model::json::hex(b)), replay());
        }
    }
    k += 1;
    for _ in 0..2 {
        w.report.eval();
        if !matches!(&obs[k], KeyObs::Lifetime(Out::Err)) {
            w.report.violation(&key("lifetime_after_exhaustion"), &format!("long-lived key object: get_lifetime after the last signature returned {:?} instead of an error", obs[k]), replay());
        }
        if !matches!(&obs[k + 1], KeyObs::Signed(Out::Err)) {
            w.report.violation(&key("signs_after_exhaustion"), &format!("long-lived key object: try_sign after the last signature returned {:?}", obs[k + 1]), replay());
        }
        k += 2;
    }
    if let KeyObs::Bytes(b) = &obs[k] {
        if !hss::is_wiped(b, n) {
            w.report.violation(&key("unwiped_by_failing_call"), "long-lived key object: failing calls after the end changed the wiped key", replay());
        }
    }
    w.report.count("object_walks", 1);
}

pub fn run(ctx: &Ctx) -> Report {
    let mut rng = ctx.rng("c05");
    let mut walks = Vec::new();
    for alg in model::ALL_ALGS {
        let w5 = if alg.is_shake() { 2 } else { 8 };
        let mut specs: Vec<(Vec<(u32, u32)>, bool)> = vec![
            (vec![(2, 8)], true),
            (vec![(2, 4), (2, 8)], true),
            (vec![(2, 8), (2, 2), (2, 4)], true),
            (vec![(5, w5)], true),
            (vec![(2, 8), (5, w5)], false),
            (vec![(5, w5), (2, 8)], false),
        ];
        if !ctx.quick() || alg == Alg::Sha256_256 || alg == Alg::Shake256_128 {
            specs.push((vec![(2, 8), (2, 4), (2, 2), (2, 8)], true));
        }
        if !ctx.quick() {
            specs.push((vec![(2, 8), (5, 4), (2, 8)], false));
            specs.push((vec![(5, 4), (5, 4)], false));
            specs.push(((0..6).map(|i| (2u32, [8u32, 4, 8, 2, 8, 4][i])).collect(), false));
        }
        for (spec, every) in specs {
            walks.push(Walk { alg, levels: levels(&spec), seed: rng.bytes(alg.n()), every });
        }
        // degenerate seeds: a live key whose seed is all zero (or all ones) is not a wiped key
        walks.push(Walk { alg, levels: levels(&[(2, 8)]), seed: vec![0u8; alg.n()], every: true });
        walks.push(Walk { alg, levels: levels(&[(2, 4), (2, 8)]), seed: vec![0u8; alg.n()], every: true });
        walks.push(Walk { alg, levels: levels(&[(2, 8)]), seed: vec![0xffu8; alg.n()], every: true });
    }
    walks.sort_by(|a, b| {
        let ca = shared::sign_cost(a.alg, &a.levels) * hss::total_leaves(&a.levels) as f64 * if a.every { 2.0 } else { 1.0 };
        let cb = shared::sign_cost(b.alg, &b.levels) * hss::total_leaves(&b.levels) as f64 * if b.every { 2.0 } else { 1.0 };
        cb.partial_cmp(&ca).unwrap()
    });
    // long-lived key objects: the small shapes of every hash, both ways of obtaining the object
    let mut objs: Vec<(Walk, bool)> = Vec::new();
    for alg in model::ALL_ALGS {
        let w5 = if alg.is_shake() { 2 } else { 8 };
        for (si, spec) in [vec![(2u32, 8u32)], vec![(2, 4), (2, 8)], vec![(5, w5)], vec![(2, 8), (2, 2), (2, 4)]].iter().enumerate() {
            if ctx.quick() && si == 3 && alg.n() != 32 {
                continue;
            }
            for from_keygen in [true, false] {
                objs.push((Walk { alg, levels: levels(spec), seed: rng.bytes(alg.n()), every: true }, from_keygen));
            }
        }
    }
    let mut rep = par_run(ctx, walks, |wk, w| run_walk(wk, w));
    rep.merge(par_run(ctx, objs, |(wk, fk), w| run_object_walk(wk, fk, w)));
    let e2e_distinct = rep.distinct_count();
    // (ii) accounting arithmetic, exhaustive over the lists with sum(h) <= 63
    let acc = arith::enumerate(ctx, "C05", Mode::Accounting, &WITH_H2, ctx.size(2, 8));
    rep.merge(acc);
    rep.exhaustive = Some(true);
    rep.count("end_to_end_distinct_states", e2e_distinct as i128);
    rep.rule = "end to end: complete lifetimes of 1..4-level keys (uniform and mixed heights, all 6 hashes) with get_lifetime queried before every signature (around roll-overs only on the 128-leaf and larger shapes), the key handed over with the last signature must be wiped, then 3 rounds of sign (3 entry points) / get_lifetime on the exhausted key must fail with no callback; the same on ONE long-lived SigningKey object (the object keygen returned, and one loaded once from bytes) used up through try_sign / try_sign_with_aux with a lifetime query before every signature and calls after the end; \
                exhaustive accounting: every list of 1..8 heights over {2,5,10,15,20,25} with sum(h)<=63 x boundary counters through the hook accessors (remaining = leaves - c, successor = c+1 or wiped at the last leaf); \
                distinct_nontrivial = distinct (hash, shape, counter) lifetime observations + (list, counter) pairs of the enumeration"
        .into();
    if rep.counter("exhaustions") == 0 {
        rep.inconclusive("no key was exhausted");
    }
    if rep.counter("object_walks") == 0 {
        rep.inconclusive("no long-lived key object was walked");
    }
    if rep.counter("lists") == 0 {
        rep.inconclusive("accounting enumeration did not run");
    }
    shared::add_assumptions(&mut rep);
    rep
}
