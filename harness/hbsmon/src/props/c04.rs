//! C04: a signature is released only after the advanced key was handed over and accepted.
//!
//! Enumerated: every private-key state of the complete lifetime of small keys x callback
//! outcome x aux variant x signing entry point, plus every failing precondition.
//!
//! Refuted by: Ok with callback count != 1 / callback refused / argument not the complete
//! successor key; Err or panic with a callback invocation although no signature was produced
//! (other than the refusing invocation itself); more than one invocation; SigningKey bytes not
//! unchanged after Err or not the successor after Ok.

use model::hss;
use model::{Alg, Level, Report, J};

use crate::common::{lcfg, levels, par_run, Ctx, Worker};
use crate::libcall::{self, AuxBuf, Cb, Out, SignEntry};
use crate::props::shared;

#[derive(Clone, Copy, Debug, PartialEq, Eq)]
pub enum AuxKind {
    None,
    FreshZero,
    Valid,
    CorruptMac,
    Empty,
    Short,
}

pub fn expected_successor(cfg: &model::Cfg, blob: &[u8]) -> Option<Vec<u8>> {
    let b = hss::parse_blob(cfg, blob)?;
    Some(match hss::successor(&b.levels, b.counter) {
        Some(c) => hss::make_blob(c, &b.levels, &b.seed),
        None => hss::wiped_blob(cfg.n()),
    })
}

struct Case {
    alg: Alg,
    levels: Vec<Level>,
    seed: Vec<u8>,
}

fn aux_for(kind: AuxKind, valid: &[u8]) -> Option<AuxBuf> {
    match kind {
        AuxKind::None => None,
        AuxKind::FreshZero => Some(AuxBuf::new(vec![0u8; 600])),
        AuxKind::Valid => Some(AuxBuf::new(valid.to_vec())),
        AuxKind::CorruptMac => {
            let mut v = valid.to_vec();
            let l = v.len();
            if l > 0 {
                v[l - 1] ^= 0x40;
            }
            Some(AuxBuf::new(v))
        }
        AuxKind::Empty => Some(AuxBuf::new(vec![])),
        AuxKind::Short => Some(AuxBuf::new(vec![0x80, 0x00])),
    }
}

#[allow(clippy::too_many_arguments)]
fn one_call(
    w: &mut Worker,
    c: &Case,
    blob: &[u8],
    state: &str,
    live: bool,
    cb: Cb,
    auxk: AuxKind,
    valid_aux: &[u8],
    entry: SignEntry,
    vk: &[u8],
) {
    let cfg = lcfg(c.alg);
    let r = &mut w.report;
    r.eval();
    let lvs = model::params::levels_to_string(&c.levels);
    let msg = format!("c04 {state} {cb:?} {auxk:?} {entry:?}").into_bytes();
    let mut aux = aux_for(auxk, valid_aux);
    let rec = match entry {
        SignEntry::Bytes => libcall::sign_bytes(c.alg, blob, &msg, cb, aux.as_mut()),
        e => libcall::sign_key(c.alg, blob, &msg, e, aux.as_mut()),
    };
    let want = expected_successor(&cfg, blob);
    let id = format!("{}:{}:{}:cb={:?}:aux={:?}:{:?}", c.alg.name(), lvs, state_class(state), cb, auxk, entry);
    let replay = || {
        J::obj()
            .with("property", J::s("C04"))
            .with("hash", J::s(c.alg.name()))
            .with("levels", J::s(&lvs))
            .with("private_key", J::hex(blob))
            .with("state", J::s(state))
            .with("callback", J::s(&format!("{cb:?}")))
            .with("aux", J::s(&format!("{auxk:?}")))
            .with("entry", J::s(&format!("{entry:?}")))
            .with("message", J::hex(&msg))
    };
    r.count(&format!("calls_{}", rec.result.kind()), 1);
    r.count(&format!("callback_invocations_{:?}", cb), rec.cb_args.len() as i128);
    match entry {
        SignEntry::Bytes => {
            if rec.cb_args.len() > 1 {
                r.violation(&format!("C04:callback_twice:{id}"), &format!("update callback invoked {} times in one call", rec.cb_args.len()), replay());
            }
            match &rec.result {
                Out::Ok(sig) => {
                    if cb == Cb::Refuse {
                        r.violation(&format!("C04:released_after_refusal:{id}"), "signature returned although the update callback reported failure", replay());
                    }
                    if rec.cb_args.len() != 1 {
                        r.violation(&format!("C04:released_without_callback:{id}"), &format!("signature returned with {} callback invocations", rec.cb_args.len()), replay());
                    } else if Some(&rec.cb_args[0]) != want.as_ref() {
                        r.violation(
                            &format!("C04:wrong_successor:{id}"),
                            &format!(
                                "callback argument {} is not the complete successor key {}",
                                model::json::hex(&rec.cb_args[0]),
                                want.as_ref().map(|b| model::json::hex(b)).unwrap_or_else(|| "<none: key not loadable>".into())
                            ),
                            replay(),
                        );
                    }
                    // the released signature must be good (rides along; owned by C01)
                    if !libcall::verify(c.alg, &msg, sig, vk, libcall::VerifyEntry::Bytes).is_ok() {
                        r.count("cross_observation_released_signature_invalid", 1);
                        r.note("cross observation (C01): a released signature did not verify");
                    }
                    r.count("released", 1);
                }
                Out::Err => {
                    if cb == Cb::Accept && !rec.cb_args.is_empty() {
                        r.violation(&format!("C04:callback_then_error:{id}"), "update callback was invoked and accepted the new key, but no signature was returned (a leaf is consumed for nothing)", replay());
                    }
                    if live && cb == Cb::Accept {
                        r.violation(&format!("C04:live_key_refused:{id}"), "signing failed on a live key although the callback would have accepted", replay());
                    }
                    if live && cb == Cb::Refuse && rec.cb_args.len() != 1 {
                        r.violation(&format!("C04:refusal_not_from_callback:{id}"), "signing failed on a live key without consulting the callback", replay());
                    }
                    // a key the library cannot sign with at all (wiped, malformed): no invocation, whatever
                    // the callback would answer.  Counters beyond the lifetime are not reachable by any
                    // history; if the library signs from them the normal protocol applies.
                    if !live && !state.starts_with("counter=lifetime+") && !rec.cb_args.is_empty() {
                        r.violation(&format!("C04:callback_on_error_path:{id}"), "update callback invoked although no signature could be produced", replay());
                    }
                    r.count("withheld", 1);
                }
                Out::Panic(p) => {
                    if !rec.cb_args.is_empty() {
                        r.violation(&format!("C04:callback_then_panic:{id}"), &format!("update callback invoked, then panic at {}", p.site()), replay());
                    }
                    r.count("cross_observation_panics", 1);
                    r.note(&format!("cross observation (C11): panic at {} ({})", p.site(), state_class(state)));
                    if live {
                        r.violation(&format!("C04:live_key_panic:{id}"), &format!("signing panicked on a live key at {}: {}", p.site(), p.message), replay());
                    }
                }
            }
        }
        _ => {
            // SigningKey: its own callback always accepts and overwrites the in-memory bytes
            match (&rec.result, &rec.key_after) {
                (Out::Ok(_), Some(after)) => {
                    if Some(after) != want.as_ref() {
                        r.violation(
                            &format!("C04:signingkey_wrong_successor:{id}"),
                            &format!("in-memory key after Ok is {} instead of the successor {}", model::json::hex(after), want.as_ref().map(|b| model::json::hex(b)).unwrap_or_default()),
                            replay(),
                        );
                    }
                    r.count("released", 1);
                }
                (Out::Err, Some(after)) => {
                    if after != blob {
                        r.violation(&format!("C04:signingkey_changed_on_error:{id}"), "in-memory key changed although signing returned an error", replay());
                    }
                    if live {
                        r.violation(&format!("C04:live_key_refused:{id}"), "SigningKey failed on a live key", replay());
                    }
                    r.count("withheld", 1);
                }
                (Out::Err, None) => {
                    // from_bytes refused the blob (too long): nothing was signed
                    r.count("withheld", 1);
                }
                (Out::Panic(p), _) => {
                    r.count("cross_observation_panics", 1);
                    r.note(&format!("cross observation (C11): panic at {} ({})", p.site(), state_class(state)));
                    if live {
                        r.violation(&format!("C04:live_key_panic:{id}"), &format!("SigningKey panicked on a live key at {}", p.site()), replay());
                    }
                }
                (Out::Ok(_), None) => {}
            }
        }
    }
    let trivial = state == "counter=0" && cb == Cb::Accept && auxk == AuxKind::None && entry == SignEntry::Bytes;
    if !trivial {
        r.distinct(&format!("{}|{}|{}|{:?}|{:?}|{:?}", c.alg.name(), lvs, state, cb, auxk, entry));
    }
    if r.samples.len() < 10 && (cb == Cb::Refuse || !live) && r.evaluations % 97 == 3 {
        r.sample(replay().with("result", J::s(&rec.result.describe())).with("callback_invocations", J::u(rec.cb_args.len())));
    }
}

/// `hbs_lms::sign_mut` (only in builds with the library's fast_verify feature): the same
/// protocol must hold, and a call that must fail because of its message buffer (too short, or a
/// trailer that is not blank) must not reach the callback at all.
#[cfg(feature = "fv")]
fn sign_mut_calls(w: &mut Worker, c: &Case, blob: &[u8], state: &str, live: bool) {
    let cfg = lcfg(c.alg);
    let n = cfg.n();
    let lvs = model::params::levels_to_string(&c.levels);
    let want = expected_successor(&cfg, blob);
    let mut msgs: Vec<(&str, Vec<u8>)> = Vec::new();
    let mut good = format!("c04 sign_mut {state}").into_bytes();
    good.extend(std::iter::repeat(0u8).take(n));
    msgs.push(("valid", good.clone()));
    msgs.push(("too-short", vec![0u8; n]));
    msgs.push(("empty", vec![]));
    let mut dirty = good.clone();
    let l = dirty.len();
    dirty[l - 1 - (state.len() % n)] = 0x01;
    msgs.push(("trailer-not-blank", dirty));
    for (kind, m) in msgs {
        for cb in [Cb::Accept, Cb::Refuse] {
            let mut buf = m.clone();
            let (rec, _) = libcall::sign_mut(c.alg, blob, &mut buf, cb);
            let r = &mut w.report;
            r.eval();
            r.count(&format!("sign_mut_{}", rec.result.kind()), 1);
            let id = format!("{}:{}:{}:cb={:?}:sign_mut:{kind}", c.alg.name(), lvs, state_class(state), cb);
            let replay = || J::obj().with("property", J::s("C04")).with("hash", J::s(c.alg.name())).with("levels", J::s(&lvs)).with("private_key", J::hex(blob)).with("state", J::s(state)).with("callback", J::s(&format!("{cb:?}"))).with("entry", J::s("sign_mut")).with("message", J::hex(&m));
            let must_fail = kind != "valid" || !live;
            if rec.cb_args.len() > 1 {
                r.violation(&format!("C04:callback_twice:{id}"), &format!("update callback invoked {} times in one sign_mut call", rec.cb_args.len()), replay());
            }
            match &rec.result {
                Out::Ok(_) => {
                    if must_fail && !state.starts_with("counter=lifetime+") {
                        r.violation(&format!("C04:released_on_error_path:{id}"), "sign_mut released a signature for a call that had to fail", replay());
                    }
                    if cb == Cb::Refuse {
                        r.violation(&format!("C04:released_after_refusal:{id}"), "sign_mut returned a signature although the update callback reported failure", replay());
                    }
                    if rec.cb_args.len() != 1 || Some(&rec.cb_args[0]) != want.as_ref() {
                        r.violation(&format!("C04:wrong_successor:{id}"), "sign_mut: callback not invoked exactly once with the complete successor key", replay());
                    }
                    r.count("released", 1);
                }
                Out::Err => {
                    if (kind != "valid" || (!live && !state.starts_with("counter=lifetime+"))) && !rec.cb_args.is_empty() {
                        r.violation(&format!("C04:callback_on_error_path:{id}"), &format!("sign_mut: update callback invoked ({}x) although no signature could be produced ({kind} message buffer, {state})", rec.cb_args.len()), replay());
                    }
                    if !must_fail && cb == Cb::Accept {
                        r.violation(&format!("C04:live_key_refused:{id}"), "sign_mut failed on a live key with a valid message buffer", replay());
                    }
                    if !must_fail && cb == Cb::Accept && !rec.cb_args.is_empty() {
                        r.violation(&format!("C04:callback_then_error:{id}"), "sign_mut: callback accepted the new key but no signature was returned", replay());
                    }
                    r.count("withheld", 1);
                }
                Out::Panic(p) => {
                    if !rec.cb_args.is_empty() {
                        r.violation(&format!("C04:callback_then_panic:{id}"), &format!("sign_mut: update callback invoked, then panic at {}", p.site()), replay());
                    }
                    r.note(&format!("cross observation (C15): sign_mut panicked at {}", p.site()));
                }
            }
            r.distinct(&format!("{}|{}|{}|{:?}|sign_mut|{kind}", c.alg.name(), lvs, state, cb));
        }
    }
}

#[cfg(not(feature = "fv"))]
fn sign_mut_calls(_w: &mut Worker, _c: &Case, _blob: &[u8], _state: &str, _live: bool) {}

fn state_class(state: &str) -> String {
    if let Some(rest) = state.strip_prefix("counter=") {
        if rest == "0" {
            return "counter0".into();
        }
        return "counterN".into();
    }
    state.to_string()
}

fn run_case(c: Case, w: &mut Worker) {
    let cfg = lcfg(c.alg);
    let mut valid_aux = AuxBuf::new(vec![0u8; 600]);
    let kp = match libcall::keygen(c.alg, &c.levels, &c.seed, Some(&mut valid_aux)) {
        Out::Ok(k) => k,
        other => {
            w.report.violation(&format!("C04:keygen:{}", c.alg.name()), &format!("keygen failed: {}", other.describe()), J::Null);
            return;
        }
    };
    let valid = valid_aux.used_part().to_vec();
    let total = hss::total_leaves(&c.levels) as u64;
    // the persisted state at every point of the lifetime, obtained by really walking it
    let mut blob = kp.sk.clone();
    for counter in 0..total {
        if blob != hss::make_blob(counter, &c.levels, &c.seed) {
            w.report.violation(
                &format!("C04:walk_state:{}:{}", c.alg.name(), model::params::levels_to_string(&c.levels)),
                &format!("persisted key after {counter} signatures is not counter||params||seed with counter {counter}"),
                J::obj().with("private_key", J::hex(&blob)),
            );
            return;
        }
        let state = format!("counter={counter}");
        for auxk in [AuxKind::None, AuxKind::FreshZero, AuxKind::Valid, AuxKind::CorruptMac] {
            one_call(w, &c, &blob, &state, true, Cb::Refuse, auxk, &valid, SignEntry::Bytes, &kp.vk);
            one_call(w, &c, &blob, &state, true, Cb::Accept, auxk, &valid, SignEntry::Bytes, &kp.vk);
            one_call(w, &c, &blob, &state, true, Cb::Accept, auxk, &valid, SignEntry::TrySignAux, &kp.vk);
        }
        one_call(w, &c, &blob, &state, true, Cb::Accept, AuxKind::None, &valid, SignEntry::TrySign, &kp.vk);
        sign_mut_calls(w, &c, &blob, &state, true);
        // advance through the real callback chain
        let rec = libcall::sign_bytes(c.alg, &blob, b"advance", Cb::Accept, None);
        match rec.cb_args.first() {
            Some(n) => blob = n.clone(),
            None => {
                w.report.violation(&format!("C04:walk_stuck:{}", c.alg.name()), &format!("walk could not advance at counter {counter}: {}", rec.result.describe()), J::Null);
                return;
            }
        }
    }
    w.report.count("lifetimes_walked", 1);
    // failing preconditions
    let n = cfg.n();
    let mut dead: Vec<(String, Vec<u8>)> = vec![("exhausted(after last leaf)".into(), blob.clone()), ("wiped".into(), hss::wiped_blob(n))];
    for extra in [0u64, 1, 1 << 32, u64::MAX - total] {
        let cnt = total.wrapping_add(extra);
        dead.push((format!("counter=lifetime+{extra}"), hss::make_blob(cnt, &c.levels, &c.seed)));
    }
    for len in 0..=64usize {
        if len == 16 + n {
            continue;
        }
        let full = hss::make_blob(0, &c.levels, &c.seed);
        let mut b = full.clone();
        b.resize(len, 0x5a);
        dead.push((format!("length={len}"), b));
    }
    for pos in 0..8usize {
        for val in [0x00u8, 0x10, 0x55, 0x5f, 0xa1, 0xfe] {
            let mut b = hss::make_blob(0, &c.levels, &c.seed);
            if pos >= c.levels.len() && pos > 0 && b[8 + pos - 1] == hss::PARAM_END && pos > c.levels.len() {
                continue; // bytes after the end marker are not interpreted
            }
            b[8 + pos] = val;
            if hss::parse_blob(&cfg, &b).is_some() {
                continue; // still a valid key (e.g. 0x55 = H5/W? is not, but 0x5f may be): not a failing precondition
            }
            dead.push((format!("param[{pos}]={val:#04x}"), b));
        }
    }
    for (state, b) in dead {
        // counters beyond the lifetime are not reachable by any history: only the generic
        // protocol rules apply (handled inside one_call through `live = false`)
        for cb in [Cb::Accept, Cb::Refuse] {
            for auxk in [AuxKind::None, AuxKind::Valid, AuxKind::Empty, AuxKind::Short] {
                one_call(w, &c, &b, &state, false, cb, auxk, &valid, SignEntry::Bytes, &kp.vk);
            }
        }
        one_call(w, &c, &b, &state, false, Cb::Accept, AuxKind::None, &valid, SignEntry::TrySign, &kp.vk);
        one_call(w, &c, &b, &state, false, Cb::Accept, AuxKind::FreshZero, &valid, SignEntry::TrySignAux, &kp.vk);
        sign_mut_calls(w, &c, &b, &state, false);
    }
    // unusable aux buffers on a live key must not break the protocol either
    let live0 = hss::make_blob(0, &c.levels, &c.seed);
    for auxk in [AuxKind::Empty, AuxKind::Short] {
        for cb in [Cb::Accept, Cb::Refuse] {
            one_call(w, &c, &live0, "counter=0", true, cb, auxk, &valid, SignEntry::Bytes, &kp.vk);
        }
    }
}

/// States deep inside the life of a key that is far too large to walk (7 x H5, 2^35 leaves):
/// around 2^32, a value with high and low bits set, and the last two leaves.  The state is the key
/// bytes; the protocol (one invocation, complete successor, nothing on refusal) must hold there too.
fn run_deep_states(alg: Alg, w: &mut Worker, seed: Vec<u8>) {
    let c = Case { alg, levels: vec![Level { h: 5, w: 8 }; 7], seed };
    let kp = match libcall::keygen(c.alg, &c.levels, &c.seed, None) {
        Out::Ok(k) => k,
        other => {
            w.report.violation(&format!("C04:keygen:{}", c.alg.name()), &format!("keygen failed: {}", other.describe()), J::Null);
            return;
        }
    };
    let total = hss::total_leaves(&c.levels) as u64;
    for counter in [(1u64 << 32) - 2, (1 << 32) - 1, 1 << 32, 0x5_1234_5678, (1 << 33) + 31, total - 2, total - 1] {
        let blob = hss::make_blob(counter, &c.levels, &c.seed);
        let state = format!("counter={counter}");
        for cb in [Cb::Accept, Cb::Refuse] {
            one_call(w, &c, &blob, &state, true, cb, AuxKind::None, &[], SignEntry::Bytes, &kp.vk);
        }
        one_call(w, &c, &blob, &state, true, Cb::Accept, AuxKind::None, &[], SignEntry::TrySign, &kp.vk);
        sign_mut_calls(w, &c, &blob, &state, true);
        w.report.count("deep_states", 1);
    }
}

/// In a build with reduced limits: well-formed key bytes whose parameter list exceeds the limit of
/// exactly one level (next larger height, next smaller W, one level too many).  Nothing can be
/// signed with them in this build, so the callback must stay untouched.
fn run_out_of_limit_states(alg: Alg, w: &mut Worker) {
    let (nlev, hs, ws) = match crate::common::build_limits() {
        Some(x) => x,
        None => return,
    };
    let base: Vec<Level> = (0..nlev.min(8)).map(|i| Level { h: if hs[i] >= 5 { 5 } else { 2 }, w: ws[i].max(4) }).collect();
    let mut lists: Vec<(String, Vec<Level>)> = Vec::new();
    for i in 0..base.len() {
        if let Some(hb) = [5u32, 10].iter().copied().find(|h| *h > hs[i]) {
            let mut l = base.clone();
            l[i].h = hb;
            lists.push((format!("out-of-limit:height:level{i}"), l));
        }
        if let Some(wb) = [4u32, 2, 1].iter().copied().find(|x| *x < ws[i]) {
            let mut l = base.clone();
            l[i].w = wb;
            lists.push((format!("out-of-limit:winternitz:level{i}"), l));
        }
    }
    if nlev < 8 {
        let mut l = base.clone();
        l.push(Level { h: 2, w: 8 });
        lists.push(("out-of-limit:levels".into(), l));
    }
    for (state, lv) in lists {
        if crate::common::in_build_limits(&lv) {
            continue;
        }
        let c = Case { alg, levels: lv, seed: vec![0x3cu8; alg.n()] };
        let blob = hss::make_blob(1, &c.levels, &c.seed);
        for cb in [Cb::Accept, Cb::Refuse] {
            one_call(w, &c, &blob, &state, false, cb, AuxKind::None, &[], SignEntry::Bytes, &[]);
        }
        one_call(w, &c, &blob, &state, false, Cb::Accept, AuxKind::None, &[], SignEntry::TrySign, &[]);
        w.report.count("out_of_limit_states", 1);
    }
}

pub fn run(ctx: &Ctx) -> Report {
    let mut rng = ctx.rng("c04");
    let mut cases = Vec::new();
    for alg in model::ALL_ALGS {
        let w5 = if alg.is_shake() { 4 } else { 8 };
        for spec in [vec![(2u32, 8u32)], vec![(2, 4), (2, 8)], vec![(2, 8), (2, 2), (2, 4)], vec![(5, w5)]] {
            cases.push(Case { alg, levels: levels(&spec), seed: rng.bytes(alg.n()) });
        }
        if !ctx.quick() {
            cases.push(Case { alg, levels: levels(&[(2, 1), (2, 2), (2, 4), (2, 8)]), seed: rng.bytes(alg.n()) });
            cases.push(Case { alg, levels: levels(&[(5, 4), (2, 8)]), seed: rng.bytes(alg.n()) });
        }
    }
    cases.sort_by(|a, b| {
        let ca = shared::sign_cost(a.alg, &a.levels) * hss::total_leaves(&a.levels) as f64;
        let cb = shared::sign_cost(b.alg, &b.levels) * hss::total_leaves(&b.levels) as f64;
        cb.partial_cmp(&ca).unwrap()
    });
    if let Some((nlev, hs, ws)) = crate::common::build_limits() {
        // a build with reduced limits (stage `constrained`): the lists it supports, the list that
        // uses every limit to the full, and - as states in which nothing can be signed - key bytes
        // that exceed one level's limit while staying inside the build's overall maxima
        cases.retain(|c| crate::common::in_build_limits(&c.levels));
        for alg in [Alg::Sha256_256, Alg::Sha256_128, Alg::Shake256_192] {
            let full: Vec<Level> = (0..nlev.min(8)).map(|i| Level { h: if hs[i] >= 10 && !alg.is_shake() { 10 } else if hs[i] >= 5 { 5 } else { 2 }, w: ws[i].max(if hs[i] >= 10 { 4 } else { 1 }) }).collect();
            if crate::common::in_build_limits(&full) && shared::sign_cost(alg, &full) * (hss::total_leaves(&full) as f64) < 2.0e9 {
                cases.push(Case { alg, levels: full.clone(), seed: rng.bytes(alg.n()) });
            }
        }
    }
    let deep: Vec<(Alg, Vec<u8>)> = if ctx.quick() { vec![Alg::Sha256_128, Alg::Sha256_192] } else { model::ALL_ALGS.to_vec() }.into_iter().map(|a| (a, rng.bytes(a.n()))).collect();
    let mut rep = par_run(ctx, cases, |c, w| run_case(c, w));
    if crate::common::build_limits().is_none() {
        rep.merge(par_run(ctx, deep, |(a, sd), w| run_deep_states(a, w, sd)));
    } else {
        rep.merge(par_run(ctx, vec![Alg::Sha256_256, Alg::Sha256_192, Alg::Shake256_128], |a, w| run_out_of_limit_states(a, w)));
    }
    rep.exhaustive = Some(true);
    rep.rule = "enumeration, not sampling: every private-key state of the complete lifetime of [H2], [H2,H2], [H2,H2,H2], [H5] (thorough: also [H2x4], [H5,H2]) under all 6 hashes \
                x callback outcome {accept, refuse} x aux {none, fresh, valid, corrupted MAC} x entry {sign, try_sign, try_sign_with_aux}, plus every failing precondition \
                (exhausted, wiped, counter >= lifetime, every key length 0..64, invalid parameter bytes, empty/short aux); the same calls at states deep inside the life of a 2^35-leaf key (around 2^32, 0x512345678, the last two leaves); the callback is a recorder; \
                distinct_nontrivial = distinct (hash, shape, state, callback outcome, aux, entry) other than the plain first signature"
        .into();
    if rep.counter("released") == 0 || rep.counter("withheld") == 0 {
        rep.inconclusive("did not observe both released and withheld signatures");
    }
    if cfg!(feature = "fv") {
        rep.rule.push_str(" ; this build has the library's fast_verify feature: every state is additionally driven through hbs_lms::sign_mut with a valid, a too short, an empty and a non-blank-trailer message buffer x callback outcome");
        if rep.counter("sign_mut_ok") == 0 || rep.counter("sign_mut_err") == 0 {
            rep.inconclusive("sign_mut: did not observe both released and withheld signatures");
        }
    }
    if rep.counter("callback_invocations_Refuse") == 0 {
        rep.inconclusive("no refusing callback invocation observed");
    }
    shared::add_assumptions(&mut rep);
    rep
}
