//! C13: leaf selection follows the reference's mixed-radix rule for every key shape.
//!
//! (i) exhaustive over every height list of length 1..8 over {5,10,15,20,25} (thorough: with
//! the 4-leaf test height as well) x boundary counters, through the hook accessors that run the
//! real `CompressedUsedLeafsIndexes::to`, `increment` and `get_lifetime`;
//! (ii) end to end through the q fields of library signatures at edited counters;
//! (iii) the hash-sigs tool as witness that the rule is the reference's.

use model::hss;
use model::{Alg, Level, Report, J};

use crate::common::{lcfg, levels, par_run, Ctx, RefTool};
use crate::libcall::{self, Cb, Out};
use crate::props::arith::{self, Mode};
use crate::props::shared;

const REAL: [u32; 5] = [5, 10, 15, 20, 25];
const WITH_H2: [u32; 6] = [2, 5, 10, 15, 20, 25];

struct E2e {
    alg: Alg,
    levels: Vec<Level>,
    tool: bool,
}

pub fn run(ctx: &Ctx) -> Report {
    let mut rep = arith::enumerate(ctx, "C13", Mode::LeafSelection, &REAL, ctx.size(2, 8));
    if !ctx.quick() {
        rep.merge(arith::enumerate(ctx, "C13", Mode::LeafSelection, &WITH_H2, 4));
    } else {
        // quick: lists containing the test height are sampled, not enumerated
        let mut rng = ctx.rng("c13-h2");
        let mut r2 = Report::new();
        for _ in 0..20_000 {
            let len = rng.range(1, 9);
            let mut lv: Vec<Level> = (0..len).map(|_| Level { h: *rng.pick(&WITH_H2), w: *rng.pick(&[1u32, 2, 4, 8]) }).collect();
            lv[rng.range(0, len)].h = 2;
            let alg = *rng.pick(&model::ALL_ALGS);
            for c in arith::boundary_counters(&lv, &mut rng, 1) {
                arith::check_one(&mut r2, "C13", Mode::LeafSelection, alg, &lv, c);
                r2.distinct(&format!("{:?}|{}", lv, c));
            }
            r2.count("sampled_lists_with_h2", 1);
        }
        r2.exhaustive = None;
        rep.merge(r2);
        rep.exhaustive = Some(true);
    }
    // (ii) + (iii)
    let mut e2e: Vec<E2e> = Vec::new();
    for (spec, tool) in [
        (vec![(5u32, 8u32), (10, 8)], true),
        (vec![(10, 8), (5, 4)], true),
        (vec![(5, 8), (5, 4), (10, 8)], true),
        (vec![(2, 8), (5, 8), (10, 8)], false),
        (vec![(2, 8), (2, 4), (5, 8), (2, 8), (5, 4)], false),
    ] {
        e2e.push(E2e { alg: Alg::Sha256_256, levels: levels(&spec), tool });
    }
    e2e.push(E2e { alg: Alg::Sha256_192, levels: levels(&[(5, 4), (10, 4)]), tool: false });
    e2e.push(E2e { alg: Alg::Shake256_128, levels: levels(&[(10, 2), (5, 2), (2, 8)]), tool: false });
    if !ctx.quick() {
        e2e.push(E2e { alg: Alg::Sha256_256, levels: levels(&[(15, 8), (5, 8)]), tool: true });
        e2e.push(E2e { alg: Alg::Sha256_256, levels: levels(&[(5, 8), (15, 8)]), tool: true });
    }
    let tool = RefTool::new(ctx, "c13");
    let tool_ref = tool.as_ref();
    let seed0 = ctx.seed;
    let r3 = par_run(ctx, e2e, |e, w| {
        let cfg = lcfg(e.alg);
        let mut rng = model::Rng::new(seed0).fork(&format!("c13-e2e-{}", model::params::levels_to_string(&e.levels)));
        let seed = rng.bytes(e.alg.n());
        let lvs = model::params::levels_to_string(&e.levels);
        let counters = arith::boundary_counters(&e.levels, &mut rng, 2);
        let total = hss::total_leaves(&e.levels) as u64;
        if e.tool {
            if let Some(t) = tool_ref {
                let name = format!("k{}", w.id);
                if t.genkey(&name, &e.levels, &seed, 0).is_none() {
                    w.report.inconclusive("reference tool genkey failed");
                }
            }
        }
        for c in counters.into_iter().filter(|c| *c < total) {
            let blob = hss::make_blob(c, &e.levels, &seed);
            let want = hss::leaf_digits(&e.levels, c);
            let rec = libcall::sign_bytes(e.alg, &blob, b"c13", Cb::Accept, None);
            w.report.eval();
            match &rec.result {
                Out::Ok(sig) => {
                    let got: Option<Vec<u32>> = hss::parse_sig(&cfg, sig).map(|lay| lay.sigs.iter().map(|s| u32::from_be_bytes(sig[s.off_q..s.off_q + 4].try_into().unwrap())).collect());
                    w.report.count("e2e_signatures", 1);
                    if got.as_ref() != Some(&want) {
                        w.report.violation(
                            &format!("C13:e2e_digits:{}:{}", e.alg.name(), lvs),
                            &format!("signature at counter {c} carries leaf indices {got:?}, mixed-radix rule gives {want:?}"),
                            shared::replay_doc("C13", e.alg, &e.levels, &seed, c, b"c13"),
                        );
                    }
                    w.report.distinct(&format!("e2e|{}|{}|{}", e.alg.name(), lvs, c));
                }
                other => w.report.violation(
                    &format!("C13:e2e_sign:{}:{}", e.alg.name(), lvs),
                    &format!("sign failed at counter {c}: {}", other.describe()),
                    shared::replay_doc("C13", e.alg, &e.levels, &seed, c, b"c13"),
                ),
            }
            if e.tool {
                if let Some(t) = tool_ref {
                    let name = format!("k{}", w.id);
                    t.write(&format!("{name}.prv"), &blob);
                    let _ = std::fs::remove_file(t.path(&format!("{name}.aux")));
                    t.write("m13", b"c13");
                    let file = format!("m13-{}", w.id);
                    t.write(&file, b"c13");
                    match t.sign(&name, &file) {
                        Some(tsig) => {
                            let got: Option<Vec<u32>> = hss::parse_sig(&cfg, &tsig).map(|lay| lay.sigs.iter().map(|s| u32::from_be_bytes(tsig[s.off_q..s.off_q + 4].try_into().unwrap())).collect());
                            w.report.count("tool_signatures", 1);
                            if got.as_ref() != Some(&want) {
                                // the oracle's rule is not the reference's: calibration problem, not a library defect
                                w.report.inconclusive(&format!("ORACLE: hash-sigs tool reads counter {c} of {lvs} as {got:?}, model says {want:?}"));
                            }
                            // the key file moved to the tool continues with counter + 1, like the library's
                            if let (Some(adv), Some(next)) = (t.read(&format!("{name}.prv")), rec.cb_args.first()) {
                                if c + 1 < total && adv != *next {
                                    w.report.violation(
                                        &format!("C13:tool_successor:{}", lvs),
                                        &format!("after one signature at counter {c} the tool's key file is {} but the library's successor is {}", model::json::hex(&adv), model::json::hex(next)),
                                        shared::replay_doc("C13", e.alg, &e.levels, &seed, c, b"c13"),
                                    );
                                }
                            }
                        }
                        None => w.report.inconclusive("reference tool sign failed"),
                    }
                }
            }
        }
        if w.report.samples.len() < 3 {
            w.report.sample(J::obj().with("kind", J::s("end-to-end")).with("hash", J::s(e.alg.name())).with("levels", J::s(&lvs)));
        }
    });
    rep.merge(r3);
    rep.rule = "exhaustive: every list of 1..8 heights over {5,10,15,20,25} (thorough: also with the 4-leaf test height; quick samples those) x boundary counters {0, 1, every radix boundary -1/0/+1, last-1, last, last+1 (only 'no arithmetic failure'), random}; for sum(h)<=63: leaf indices = mixed-radix digits, successor = c+1 / wiped, remaining = leaves - c; for sum(h)>=64: no panic, same digit rule on the 64-bit counter, successor c+1 until 2^64-1; \
                end to end: q fields of library signatures and of hash-sigs tool signatures at the same edited counters; distinct_nontrivial = number of (list, counter) pairs (lists are disjoint by construction) + distinct end-to-end (shape, counter)"
        .into();
    if rep.counter("lists_sum_ge_64") == 0 {
        rep.inconclusive("no list with total height >= 64 was exercised");
    }
    if rep.counter("e2e_signatures") == 0 {
        rep.inconclusive("no end-to-end signature observed");
    }
    if tool.is_none() || rep.counter("tool_signatures") == 0 {
        rep.inconclusive("reference tool did not witness the digit rule");
    }
    rep.assumptions.push("hook accessors build a skeleton HssPrivateKey (real parameters and leaf indices, no trees) and call the real CompressedUsedLeafsIndexes::to / ReferenceImplPrivateKey::increment / HssPrivateKey::get_lifetime; the +1 on upper-level leaf indices mirrors what HssPrivateKey::from does (cross-checked end to end by C05 on small shapes)".into());
    shared::add_assumptions(&mut rep);
    rep
}
