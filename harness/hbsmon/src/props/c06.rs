//! C06: verification is total: arbitrary untrusted bytes never crash the verifier.
//!
//! Refuted by: a panic (any kind, including arithmetic overflow under the pinned
//! overflow-checks) in hbs_lms::verify, VerifyingKey::from_bytes + verify (both signature
//! types), Signature::from_bytes, VerifierSignature::from_ref.  What the calls return is C02's
//! business.

use std::time::Instant;

use model::lms::TreeCache;
use model::{Report, Rng, J};

use crate::common::{par_run, Ctx, RefTool, Worker};
use crate::libcall::{self, VERIFY_ENTRIES};
use crate::props::mutgen::{self, Case, Opts, Triple};
use crate::props::shared;

fn probe(w: &mut Worker, c: Case, nth: &mut u64) {
    *nth += 1;
    let r = &mut w.report;
    let replay = || {
        J::obj()
            .with("property", J::s("C06"))
            .with("hash", J::s(c.alg.name()))
            .with("class", J::s(c.class))
            .with("field", J::s(c.field))
            .with("message", J::hex(c.msg))
            .with("signature", J::hex(c.sig))
            .with("public_key", J::hex(c.pk))
    };
    for e in VERIFY_ENTRIES {
        r.eval();
        let t0 = Instant::now();
        let out = libcall::verify(c.alg, c.msg, c.sig, c.pk, e);
        let dt = t0.elapsed().as_micros() as i128;
        r.set_max("max_call_micros", dt);
        r.count(&format!("outcome_{}", out.kind()), 1);
        if let Some(p) = out.panic() {
            r.violation(
                &format!("C06:panic:{}:{}:{}", p.site(), e.name(), c.class),
                &format!("{} panicked on a {} / {} input: {} at {}", e.name(), c.class, c.field, p.message, p.site()),
                replay(),
            );
        }
    }
    r.eval();
    let o1 = libcall::signature_from_bytes(c.sig);
    if let Some(p) = o1.panic() {
        r.violation(&format!("C06:panic:{}:Signature::from_bytes:{}", p.site(), c.class), &format!("Signature::from_bytes panicked: {}", p.message), replay());
    }
    r.eval();
    let o2 = libcall::verifying_key_from_bytes(c.alg, c.pk);
    if let Some(p) = o2.panic() {
        r.violation(&format!("C06:panic:{}:VerifyingKey::from_bytes:{}", p.site(), c.class), &format!("VerifyingKey::from_bytes panicked: {}", p.message), replay());
    }
    let detail = if c.class.starts_with("truncate") { format!("{}", c.sig.len().min(c.pk.len() * 1000)) } else { String::new() };
    r.distinct(&format!("{}|{}|{}|{}|{}", c.alg.name(), c.base.wlist(), c.class, c.field, detail));
    if r.samples.len() < 8 && *nth % 4999 == 11 {
        r.sample(replay().with("signature", J::hexa(c.sig)).with("signature_len", J::u(c.sig.len())).with("public_key_len", J::u(c.pk.len())));
    }
}

pub fn run(ctx: &Ctx) -> Report {
    let mut rng = ctx.rng("c06");
    let tool = RefTool::new(ctx, "c06");
    let mut cache = TreeCache::new();
    let pool = mutgen::build_pool(ctx, &mut rng, &mut cache, tool.as_ref());
    let idx: Vec<usize> = (0..pool.len()).collect();
    let pool_ref = &pool;
    let seed = ctx.seed;
    let budget = ctx.size(60, 1500);
    let mut rep = par_run(ctx, idx, |i, w| {
        let t: &Triple = &pool_ref[i];
        let mut rng = Rng::new(seed).fork(&format!("c06-{i}"));
        let mut nth = 0u64;
        // dense truncation / all header byte values once per (hash, shape): on the library-signed triple at the first counter
        let first = t.origin == "lib" && pool_ref.iter().position(|o| o.alg == t.alg && o.levels == t.levels && o.origin == "lib") == Some(i);
        let opts = Opts { exhaustive_bytes: t.sig.len() <= 450 && first, dense_truncation: first, all_header_bytes: first, budget };
        let mut f = |c: Case| probe(w, c, &mut nth);
        mutgen::mutate(t, pool_ref, &mut rng, opts, &mut f);
        // raw noise of assorted lengths, including empty everything
        for len in [0usize, 1, 2, 3, 4, 5, 7, 8, 11, 12, 16, 27, 28, 59, 60, 61, 100, 1000, 5000] {
            let sig = rng.bytes(len);
            for pklen in [0usize, 3, 4, 28, 44, 52, 60, 61] {
                let pk = rng.bytes(pklen);
                probe(w, Case { base: t, alg: t.alg, msg: &[], sig: &sig, pk: &pk, class: "raw-noise", field: "all" }, &mut nth);
            }
            probe(w, Case { base: t, alg: t.alg, msg: &t.msg, sig: &sig, pk: &t.pk, class: "raw-noise", field: "signature" }, &mut nth);
        }
    });
    rep.rule = "inputs = the C02 mutation set plus, once per (hash, key shape): every prefix length of a valid signature and public key, all 256 values of every byte of every header/type/level field, level counts with enough well-formed filler blocks that parsing proceeds, trailing data; raw byte noise of assorted lengths (incl. empty); every input goes through hbs_lms::verify, VerifyingKey+Signature, VerifyingKey+VerifierSignature, Signature::from_bytes and VerifyingKey::from_bytes under catch_unwind with a panic hook recording message and location; \
                distinct_nontrivial = distinct (hash, W list, input class, field, truncation length)"
        .into();
    if rep.counter("outcome_ok") == 0 || rep.counter("outcome_err") == 0 {
        rep.inconclusive("did not observe both Ok and Err outcomes");
    }
    rep.assumptions.push("termination: every call is bounded by the hashing work its parsed lengths imply; the longest observed call is reported as max_call_micros and a global wall-clock watchdog (inconclusive, not a violation) surrounds the run".into());
    shared::add_assumptions(&mut rep);
    rep
}
