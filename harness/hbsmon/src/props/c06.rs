//! C06: verification is total: arbitrary untrusted bytes never crash the verifier.
//!
//! Refuted by: a panic (any kind, including arithmetic overflow under the pinned
//! overflow-checks) in hbs_lms::verify, VerifyingKey::from_bytes + verify (both signature
//! types), Signature::from_bytes, VerifierSignature::from_ref.  What the calls return is C02's
//! business.

use std::collections::HashMap;
use std::sync::Mutex;
use std::time::Instant;

use model::lms::TreeCache;
use model::{Report, Rng, J};

use crate::common::{par_run, Ctx, RefTool, Worker};
use crate::libcall::{self, VERIFY_ENTRIES};
use crate::props::mutgen::{self, Case, Opts, Triple};
use crate::props::shared;

/// Cases exported for the Miri stage: inputs that the native run saw fail fast (before any
/// Winternitz chain is walked) plus a handful of complete verifications of small signatures.
#[derive(Default)]
struct Corpus {
    per_class: HashMap<String, usize>,
    slow: usize,
    lines: Vec<String>,
}

static CORPUS: Mutex<Option<Corpus>> = Mutex::new(None);

fn corpus_path() -> std::path::PathBuf {
    let root = std::env::var("VERIF_ROOT").unwrap_or_else(|_| "/verif".to_string());
    std::path::PathBuf::from(format!("{root}/target/results/C06-miri-corpus.txt"))
}

fn export(c: &Case, fast_err: bool) {
    if c.sig.len() > 6000 || c.msg.len() > 300 {
        return;
    }
    let mut g = CORPUS.lock().unwrap();
    let co = g.get_or_insert_with(Corpus::default);
    if fast_err {
        let k = format!("{}|{}", c.class, c.alg.n());
        let e = co.per_class.entry(k).or_insert(0);
        if *e >= 12 {
            return;
        }
        *e += 1;
    } else if c.class.starts_with("child-") && c.alg.n() == 16 && c.base.levels.iter().all(|l| l.w == 1) {
        // inputs that are only interesting to a build with debug assertions (the interpreter stage
        // is one): a few per class, of the cheapest multi-level key
        let k = format!("{}|slow", c.class);
        let e = co.per_class.entry(k).or_insert(0);
        if *e >= 2 {
            return;
        }
        *e += 1;
    } else {
        // complete verifications are expensive under the interpreter: smallest signatures only
        if co.slow >= 4 || c.alg.n() != 16 || c.sig.len() > 2400 || c.base.levels.len() != 1 || c.base.levels[0].w != 1 {
            return;
        }
        co.slow += 1;
    }
    co.lines.push(format!(
        "{} {} {} {} {} {}",
        c.alg.name(),
        c.class.replace(' ', "_"),
        if fast_err { "fast" } else { "full" },
        if c.msg.is_empty() { "-".to_string() } else { model::json::hex(c.msg) },
        if c.sig.is_empty() { "-".to_string() } else { model::json::hex(c.sig) },
        if c.pk.is_empty() { "-".to_string() } else { model::json::hex(c.pk) }
    ));
}

fn probe(w: &mut Worker, c: Case, nth: &mut u64) {
    *nth += 1;
    let r = &mut w.report;
    let replay = || {
        J::obj()
            .with("property", J::s("C06"))
            .with("hash", J::s(c.alg.name()))
            .with("class", J::s(c.class))
            .with("field", J::s(c.field))
            .with("message", J::hex(c.msg))
            .with("signature", J::hex(c.sig))
            .with("public_key", J::hex(c.pk))
    };
    for e in VERIFY_ENTRIES {
        r.eval();
        let t0 = Instant::now();
        let out = libcall::verify(c.alg, c.msg, c.sig, c.pk, e);
        let dt = t0.elapsed().as_micros() as i128;
        r.set_max("max_call_micros", dt);
        r.count(&format!("outcome_{}", out.kind()), 1);
        if e == libcall::VerifyEntry::Bytes && !crate::common::miri_mode() && cfg!(feature = "hooks") {
            let fast_err = out.is_err() && t0.elapsed().as_nanos() < 4000;
            if fast_err || out.is_ok() || c.class.starts_with("child-") {
                export(&c, fast_err);
            }
        }
        if let Some(p) = out.panic() {
            r.violation(
                &format!("C06:panic:{}:{}:{}", p.site(), e.name(), c.class),
                &format!("{} panicked on a {} / {} input: {} at {}", e.name(), c.class, c.field, p.message, p.site()),
                replay(),
            );
        }
    }
    r.eval();
    let o1 = libcall::signature_from_bytes(c.sig);
    if let Some(p) = o1.panic() {
        r.violation(&format!("C06:panic:{}:Signature::from_bytes:{}", p.site(), c.class), &format!("Signature::from_bytes panicked: {}", p.message), replay());
    }
    r.eval();
    let o2 = libcall::verifying_key_from_bytes(c.alg, c.pk);
    if let Some(p) = o2.panic() {
        r.violation(&format!("C06:panic:{}:VerifyingKey::from_bytes:{}", p.site(), c.class), &format!("VerifyingKey::from_bytes panicked: {}", p.message), replay());
    }
    let detail = if c.class.starts_with("truncate") { format!("{}", c.sig.len().min(c.pk.len() * 1000)) } else { String::new() };
    r.distinct(&format!("{}|{}|{}|{}|{}", c.alg.name(), c.base.wlist(), c.class, c.field, detail));
    if r.samples.len() < 8 && *nth % 4999 == 11 {
        r.sample(replay().with("signature", J::hexa(c.sig)).with("signature_len", J::u(c.sig.len())).with("public_key_len", J::u(c.pk.len())));
    }
}

/// Miri stage: replay the exported corpus (this shard's share) through the same probe.
fn run_miri(ctx: &Ctx) -> Report {
    let mut rep = Report::new();
    let text = match std::fs::read_to_string(corpus_path()) {
        Ok(t) => t,
        Err(_) => {
            rep.inconclusive("no corpus exported by the native stage");
            return rep;
        }
    };
    let budget = std::time::Duration::from_secs(ctx.size(150, 1500) as u64);
    let t0 = Instant::now();
    let dummy = Triple { alg: model::Alg::Sha256_128, levels: vec![], seed: vec![], counter: 0, msg: vec![], sig: vec![], pk: vec![], origin: "corpus" };
    let mut w = Worker { id: 0, report: Report::new(), cache: TreeCache::new() };
    let mut nth = 0u64;
    let un = |s: &str| if s == "-" { Some(Vec::new()) } else { model::json::unhex(s) };
    for (i, line) in text.lines().enumerate() {
        if !ctx.mine(i) {
            continue;
        }
        if t0.elapsed() > budget {
            w.report.note("time budget of the interpreter run reached before the end of the corpus share");
            break;
        }
        let f: Vec<&str> = line.split_whitespace().collect();
        if f.len() != 6 {
            continue;
        }
        let (alg, msg, sig, pk) = match (model::Alg::from_name(f[0]), un(f[3]), un(f[4]), un(f[5])) {
            (Some(a), Some(m), Some(s), Some(p)) => (a, m, s, p),
            _ => continue,
        };
        let class = format!("miri:{}", f[1]);
        probe(&mut w, Case { base: &dummy, alg, msg: &msg, sig: &sig, pk: &pk, class: &class, field: f[2] }, &mut nth);
        w.report.count(&format!("replayed_{}", f[2]), 1);
    }
    rep.merge(w.report);
    rep.rule = "Miri stage: inputs exported by the native run (up to 12 fast-failing inputs per mutation class and hash length, plus complete verifications of the smallest signatures) are replayed through the same five entry points under the interpreter (debug profile, software SHA-2); this shard's share only".into();
    if rep.counter("replayed_fast") == 0 {
        rep.inconclusive("the interpreter replayed no input");
    }
    rep
}

pub fn run(ctx: &Ctx) -> Report {
    if ctx.miri {
        return run_miri(ctx);
    }
    *CORPUS.lock().unwrap() = Some(Corpus::default());
    let mut rng = ctx.rng("c06");
    let tool = RefTool::new(ctx, "c06");
    let mut cache = TreeCache::new();
    let pool = mutgen::build_pool(ctx, &mut rng, &mut cache, tool.as_ref());
    let idx: Vec<usize> = (0..pool.len()).collect();
    let pool_ref = &pool;
    let seed = ctx.seed;
    let budget = ctx.size(60, 1500);
    let mut rep = par_run(ctx, idx, |i, w| {
        let t: &Triple = &pool_ref[i];
        let mut rng = Rng::new(seed).fork(&format!("c06-{i}"));
        let mut nth = 0u64;
        // dense truncation / all header byte values once per (hash, shape): on the library-signed triple at the first counter
        let first = t.origin == "lib" && pool_ref.iter().position(|o| o.alg == t.alg && o.levels == t.levels && o.origin == "lib") == Some(i);
        let opts = Opts { exhaustive_bytes: t.sig.len() <= 450 && first, dense_truncation: first, all_header_bytes: first, budget };
        let mut f = |c: Case| probe(w, c, &mut nth);
        mutgen::mutate(t, pool_ref, &mut rng, opts, &mut f);
        // raw noise of assorted lengths, including empty everything
        for len in [0usize, 1, 2, 3, 4, 5, 7, 8, 11, 12, 16, 27, 28, 59, 60, 61, 100, 1000, 5000] {
            let sig = rng.bytes(len);
            for pklen in [0usize, 3, 4, 28, 44, 52, 60, 61] {
                let pk = rng.bytes(pklen);
                probe(w, Case { base: t, alg: t.alg, msg: &[], sig: &sig, pk: &pk, class: "raw-noise", field: "all" }, &mut nth);
            }
            probe(w, Case { base: t, alg: t.alg, msg: &t.msg, sig: &sig, pk: &t.pk, class: "raw-noise", field: "signature" }, &mut nth);
        }
    });
    rep.rule = "inputs = the C02 mutation set plus, once per (hash, key shape): every prefix length of a valid signature and public key, all 256 values of every byte of every header/type/level field, level counts with enough well-formed filler blocks that parsing proceeds, trailing data; raw byte noise of assorted lengths (incl. empty); every input goes through hbs_lms::verify, VerifyingKey+Signature, VerifyingKey+VerifierSignature, Signature::from_bytes and VerifyingKey::from_bytes under catch_unwind with a panic hook recording message and location; \
                distinct_nontrivial = distinct (hash, W list, input class, field, truncation length)"
        .into();
    if rep.counter("outcome_ok") == 0 || rep.counter("outcome_err") == 0 {
        rep.inconclusive("did not observe both Ok and Err outcomes");
    }
    if let Some(co) = CORPUS.lock().unwrap().take().filter(|_| cfg!(feature = "hooks") && std::env::var("VERIF_BUILD_CONFIG").is_err()) {
        let mut lines = co.lines;
        lines.sort();
        if let Some(d) = corpus_path().parent() {
            let _ = std::fs::create_dir_all(d);
        }
        let _ = std::fs::write(corpus_path(), lines.join("\n") + "\n");
        rep.count("inputs_exported_for_miri", lines.len() as i128);
    }
    rep.assumptions.push("termination: every call is bounded by the hashing work its parsed lengths imply; the longest observed call is reported as max_call_micros and a global wall-clock watchdog (inconclusive, not a violation) surrounds the run".into());
    shared::add_assumptions(&mut rep);
    rep
}
