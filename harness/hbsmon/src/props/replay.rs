//! Re-execution of single witness cases (`./check <ID> --replay <file>`): the wrapper turns the
//! witness document into request lines, this worker executes each against the library and the
//! model and prints what it observes.  A line starting with `DEVIATION` means the library still
//! behaves differently from the oracle on that case.
//!
//!   verify <hash> <msg> <sig> <pk>                 all three entry points vs the model verifier
//!   sign   <hash> <key bytes> <msg> <aux|none>     sign with a recording callback vs the model
//!   state  <hash> <h/w,..> <seed> <counter> <msg>  keygen + sign at that counter vs the model
//!   digits <hash> <w> <digest>                     hook digits vs Appendix-B digits
//!   arith  <hash> <key bytes>                      counter arithmetic hooks vs u128 arithmetic
//! (byte strings in hex, `-` for empty)

use std::io::BufRead;

use model::hss::{self, UpperC};
use model::json::{hex, unhex};
use model::lms::TreeCache;
use model::{Alg, Level};

use crate::common::lcfg;
use crate::libcall::{self, AuxBuf, Cb, Out, VERIFY_ENTRIES};

fn bytes(s: &str) -> Vec<u8> {
    if s == "-" {
        Vec::new()
    } else {
        unhex(s).unwrap_or_default()
    }
}

fn short(b: &[u8]) -> String {
    if b.len() <= 40 {
        hex(b)
    } else {
        format!("{}..({} bytes)..{}", hex(&b[..16]), b.len(), hex(&b[b.len() - 8..]))
    }
}

pub fn worker() {
    let stdin = std::io::stdin();
    let mut cache = TreeCache::new();
    for line in stdin.lock().lines() {
        let line = line.unwrap();
        let f: Vec<&str> = line.split_whitespace().collect();
        if f.len() < 2 {
            continue;
        }
        let alg = match Alg::from_name(f[1]) {
            Some(a) => a,
            None => {
                println!("SKIP unknown hash {}", f[1]);
                continue;
            }
        };
        let cfg = lcfg(alg);
        match (f[0], f.len()) {
            ("verify", 5) => {
                let (msg, sig, pk) = (bytes(f[2]), bytes(f[3]), bytes(f[4]));
                let want = hss::verify(&cfg, &msg, &sig, &pk);
                println!("verify {}: message {} bytes, signature {} bytes, public key {}", alg.name(), msg.len(), sig.len(), short(&pk));
                println!("  independent RFC 8554 verifier: {}", if want { "ACCEPT" } else { "reject" });
                for e in VERIFY_ENTRIES {
                    let got = libcall::verify(alg, &msg, &sig, &pk, e);
                    println!("  library {}: {}", e.name(), got.describe());
                    if got.panic().is_some() {
                        println!("DEVIATION panic in {}", e.name());
                    } else if got.is_ok() != want {
                        println!("DEVIATION {} {} where RFC 8554 {}", e.name(), if got.is_ok() { "accepts" } else { "rejects" }, if want { "accepts" } else { "rejects" });
                    }
                }
                for (name, o) in [("Signature::from_bytes", libcall::signature_from_bytes(&sig)), ("VerifyingKey::from_bytes", libcall::verifying_key_from_bytes(alg, &pk))] {
                    println!("  library {name}: {}", o.describe());
                    if o.panic().is_some() {
                        println!("DEVIATION panic in {name}");
                    }
                }
            }
            ("sign", 5) => {
                let (blob, msg) = (bytes(f[2]), bytes(f[3]));
                let mut aux = if f[4] == "none" { None } else { Some(AuxBuf::new(bytes(f[4]))) };
                let parsed = hss::parse_blob(&cfg, &blob);
                println!("sign {}: key bytes {} ({})", alg.name(), short(&blob), match &parsed {
                    Some(b) => format!("levels {}, counter {}", model::params::levels_to_string(&b.levels), b.counter),
                    None => "not a well-formed key".to_string(),
                });
                let lt = libcall::lifetime(alg, &blob);
                println!("  library get_lifetime: {}", lt.describe_val());
                for cb in [Cb::Accept, Cb::Refuse] {
                    let rec = libcall::sign_bytes(alg, &blob, &msg, cb, aux.as_mut());
                    println!("  library sign (callback {cb:?}): {}, callback invocations {}", rec.result.describe(), rec.cb_args.len());
                    for a in &rec.cb_args {
                        println!("    callback argument {}", short(a));
                    }
                    if rec.result.panic().is_some() {
                        println!("DEVIATION panic in sign");
                    }
                    if rec.cb_args.len() > 1 {
                        println!("DEVIATION callback invoked {} times", rec.cb_args.len());
                    }
                    match (&parsed, &rec.result) {
                        (None, Out::Ok(_)) => println!("DEVIATION a signature was released for malformed key bytes"),
                        (None, _) if !rec.cb_args.is_empty() => println!("DEVIATION callback invoked for malformed key bytes"),
                        (Some(b), Out::Ok(sig)) if (b.counter as u128) < hss::total_leaves(&b.levels) && b.levels.iter().all(|l| l.h <= 10) => {
                            let want = hss::sign(&cfg, &mut cache, b, &msg, UpperC::ChildSeed, None);
                            let vk = hss::public_key(&cfg, &mut cache, &b.levels, &b.seed);
                            println!("    model signature identical: {}; verifies under the model's public key: {}", want == *sig, hss::verify(&cfg, &msg, sig, &vk));
                            if want != *sig {
                                println!("DEVIATION released signature differs from the model's at {}", crate::props::shared::first_difference(&cfg, &want, sig));
                            }
                            if cb == Cb::Refuse {
                                println!("DEVIATION signature released although the callback refused");
                            }
                            let succ = crate::props::c04::expected_successor(&cfg, &blob);
                            if rec.cb_args.len() != 1 || Some(&rec.cb_args[0]) != succ.as_ref() {
                                println!("DEVIATION callback argument is not the successor key {}", succ.map(|s| short(&s)).unwrap_or_default());
                            }
                        }
                        (Some(b), Out::Err) if (b.counter as u128) < hss::total_leaves(&b.levels) && cb == Cb::Accept && aux.is_none() => println!("DEVIATION signing refused on a live, well-formed key"),
                        _ => {}
                    }
                }
            }
            ("state", 6) => {
                let lv: Vec<Level> = f[2]
                    .split(',')
                    .filter_map(|p| {
                        let mut it = p.split('/');
                        Some(Level { h: it.next()?.parse().ok()?, w: it.next()?.parse().ok()? })
                    })
                    .collect();
                let seed = bytes(f[3]);
                let counter: u64 = f[4].parse().unwrap_or(0);
                let msg = bytes(f[5]);
                println!("state {}: levels {}, counter {counter}, message {} bytes", alg.name(), model::params::levels_to_string(&lv), msg.len());
                if lv.iter().any(|l| l.h > 15) {
                    println!("SKIP trees of that height cannot be generated");
                    continue;
                }
                let kg = libcall::keygen(alg, &lv, &seed, None);
                let vk = hss::public_key(&cfg, &mut cache, &lv, &seed);
                match &kg {
                    Out::Ok(k) => {
                        println!("  library keygen: public key {} (model: {})", short(&k.vk), if k.vk == vk { "identical" } else { "DIFFERENT" });
                        if k.vk != vk || k.sk != hss::make_blob(0, &lv, &seed) {
                            println!("DEVIATION keygen result differs from the model");
                        }
                    }
                    other => println!("DEVIATION keygen: {}", other.describe()),
                }
                let blob = hss::make_blob(counter, &lv, &seed);
                let rec = libcall::sign_bytes(alg, &blob, &msg, Cb::Accept, None);
                println!("  library sign: {}, callback invocations {}", rec.result.describe(), rec.cb_args.len());
                if let (Out::Ok(sig), Some(b)) = (&rec.result, hss::parse_blob(&cfg, &blob)) {
                    let want = hss::sign(&cfg, &mut cache, &b, &msg, UpperC::ChildSeed, None);
                    if want != *sig {
                        println!("DEVIATION released signature differs from the model's at {}", crate::props::shared::first_difference(&cfg, &want, sig));
                    }
                    for e in VERIFY_ENTRIES {
                        let got = libcall::verify(alg, &msg, sig, &vk, e);
                        println!("  library {} of the released signature: {}", e.name(), got.describe());
                        if !got.is_ok() {
                            println!("DEVIATION released signature not accepted by {}", e.name());
                        }
                    }
                } else if (counter as u128) < hss::total_leaves(&lv) {
                    println!("DEVIATION signing failed on a live key");
                }
            }
            #[cfg(feature = "hooks")]
            ("digits", 4) => {
                let wv: u32 = f[2].parse().unwrap_or(8);
                let digest = bytes(f[3]);
                let code = model::params::code_of_w(wv);
                let rfc = model::params::ots_rfc(alg.n(), wv);
                let want = model::lmots::digits(&rfc, &digest);
                let mut out = [0u8; 300];
                let got = crate::with_hash!(alg, H, { libcall::guard(|| hbs_lms::verif_hooks::ots_digits::<H>(code, &digest, &mut out).map(|p| out[..p].to_vec())) });
                println!("digits {} w={wv}: digest {}", alg.name(), hex(&digest));
                println!("  Appendix B: {:?}", want);
                match got {
                    Ok(Some(g)) => {
                        println!("  library   : {:?}", g);
                        if g.iter().map(|x| *x as u32).collect::<Vec<_>>() != want {
                            println!("DEVIATION digit vector differs from RFC 8554 (known for (n,w) = (24,1), (16,1), (16,2): see known_findings.json)");
                        }
                    }
                    other => println!("DEVIATION hook returned {:?}", other.map(|o| o.is_some())),
                }
            }
            #[cfg(feature = "hooks")]
            ("arith", 3) => {
                let blob = bytes(f[2]);
                match hss::parse_blob(&cfg, &blob) {
                    Some(b) => {
                        let out = crate::props::arith::hooks(alg, &blob);
                        println!("arith {}: levels {}, counter {}", alg.name(), model::params::levels_to_string(&b.levels), b.counter);
                        println!("  library leaf indices {:?}; mixed-radix digits {:?}", out.digits.as_ref().map(|r| r.as_ref().map(|(d, _)| d.clone())), hss::leaf_digits(&b.levels, b.counter));
                        println!("  library remaining lifetime {:?}; leaves - counter = {}", out.remaining, hss::remaining(&b.levels, b.counter));
                        println!("  library successor {:?}; expected counter {:?}", out.successor.as_ref().map(|r| r.as_ref().map(|s| short(s))), hss::successor(&b.levels, b.counter));
                        let mut r = model::Report::new();
                        crate::props::arith::check_one(&mut r, "replay", crate::props::arith::Mode::LeafSelection, alg, &b.levels, b.counter);
                        for v in &r.violations {
                            println!("DEVIATION {}", v.what);
                        }
                    }
                    None => println!("SKIP key bytes are not well-formed"),
                }
            }
            _ => println!("SKIP request not understood: {}", &line[..line.len().min(80)]),
        }
    }
}
