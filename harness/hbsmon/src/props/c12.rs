//! C12: the Winternitz digit encoding is RFC-exact and domination-free.
//!
//! Through the hook `ots_digits` (real `append_checksum_to` + `coef`) for all 12 (n, w):
//!  * p and ls against the Appendix-B formulas;
//!  * exhaustive digit extraction: every digest byte position x every byte value;
//!  * exhaustive checksum: a digest for every attainable checksum value 0..u(2^w-1); the v
//!    checksum digits, read as a number, must equal the checksum;
//!  * random digests; domination search on adversarial neighbours and random pairs;
//!  * end to end: chain positions recovered from released signatures = hook digits of Q.

use model::lmots;
use model::params::{self, Cfg, LsMode, Ots};
use model::{Alg, Level, Report, Rng, J};

use crate::common::{par_run, Ctx, Worker};
use crate::libcall::{self, guard, Cb, Out};
use crate::with_hash;

fn hook_digits(alg: Alg, code: u32, digest: &[u8]) -> Result<Option<Vec<u8>>, crate::libcall::PanicInfo> {
    with_hash!(alg, H, {
        guard(|| {
            let mut out = [0u8; 300];
            hbs_lms::verif_hooks::ots_digits::<H>(code, digest, &mut out).map(|p| out[..p].to_vec())
        })
    })
}

fn hook_params(alg: Alg, code: u32) -> Option<(usize, u8, u16, u8)> {
    with_hash!(alg, H, { hbs_lms::verif_hooks::ots_parameters::<H>(code) })
}

struct Job {
    alg: Alg,
    w: u32,
    part: usize,
    parts: usize,
}

fn dominates(a: &[u8], b: &[u8]) -> bool {
    a.iter().zip(b.iter()).all(|(x, y)| x >= y)
}

/// set digit i (w bits) of digest d to value v
fn set_digit(d: &mut [u8], i: usize, w: u32, v: u32) {
    let w = w as usize;
    let per = 8 / w;
    let byte = (i * w) / 8;
    let shift = 8 - (w * (i % per) + w);
    let mask = (((1u32 << w) - 1) << shift) as u8;
    d[byte] = (d[byte] & !mask) | ((v << shift) as u8 & mask);
}

fn checksum_number(digits: &[u8], o: &Ots) -> u32 {
    // the v checksum digits read as one v*w-bit number
    let mut x: u32 = 0;
    for d in &digits[o.u..o.u + o.v] {
        x = (x << o.w) | *d as u32;
    }
    x
}

struct Checker<'a> {
    r: &'a mut Report,
    alg: Alg,
    code: u32,
    rfc: Ots,
    /// what the tree's table says (rfc except for the three recorded deviations)
    libo: Ots,
}

impl<'a> Checker<'a> {
    fn key(&self, what: &str) -> String {
        format!("C12:{what}:n={}:w={}", self.rfc.n, self.rfc.w)
    }
    fn replay(&self, digest: &[u8]) -> J {
        J::obj()
            .with("property", J::s("C12"))
            .with("hash", J::s(self.alg.name()))
            .with("n", J::u(self.rfc.n))
            .with("w", J::Int(self.rfc.w as i128))
            .with("digest", J::hex(digest))
    }
    /// one digest through the hook, compared with the formula-based model
    fn check(&mut self, digest: &[u8], class: &str) -> Option<Vec<u8>> {
        self.r.eval();
        let got = match hook_digits(self.alg, self.code, digest) {
            Ok(Some(g)) => g,
            Ok(None) => {
                self.r.violation(&self.key("hook_refused"), "ots_digits returned None for a valid type and digest length", self.replay(digest));
                return None;
            }
            Err(p) => {
                self.r.violation(&self.key(&format!("panic:{}", p.site())), &format!("digit encoding panicked: {} at {}", p.message, p.site()), self.replay(digest));
                return None;
            }
        };
        let want = lmots::digits(&self.rfc, digest);
        if got.len() != want.len() {
            self.r.violation(&self.key("p"), &format!("{} chain positions, Appendix B gives p = {}", got.len(), want.len()), self.replay(digest));
            return Some(got);
        }
        let u = self.rfc.u;
        if let Some(i) = (0..u).find(|i| got[*i] as u32 != want[*i]) {
            self.r.violation(
                &self.key("message_digit"),
                &format!("digit {i} of the digest is {} in the library, {} by RFC 8554 coef()", got[i], want[i]),
                self.replay(digest).with("class", J::s(class)),
            );
        }
        if let Some(i) = (u..want.len()).find(|i| got[*i] as u32 != want[*i]) {
            // the recorded deviation: the library's own tabulated shift must explain it completely
            let lib_want = lmots::digits(&self.libo, digest);
            if self.libo.ls != self.rfc.ls && got.iter().map(|x| *x as u32).collect::<Vec<_>>() == lib_want {
                self.r.violation(
                    &format!("C12:ls:n={}:w={}:lib={}:rfc={}", self.rfc.n, self.rfc.w, self.libo.ls, self.rfc.ls),
                    &format!(
                        "checksum digits follow a left shift of {} instead of the Appendix-B value {} (first differing chain {i})",
                        self.libo.ls, self.rfc.ls
                    ),
                    self.replay(digest),
                );
            } else {
                self.r.violation(
                    &self.key("checksum_digit"),
                    &format!("checksum chain {i} is at position {}, RFC 8554 gives {} (checksum {})", got[i], want[i], lmots::cksm_value(&self.rfc, digest)),
                    self.replay(digest).with("class", J::s(class)),
                );
            }
        }
        // the checksum digits must encode the full checksum value
        let value = lmots::cksm_value(&self.rfc, digest);
        let encoded = checksum_number(&got, &self.rfc);
        let unused = (self.rfc.v as u32 * self.rfc.w).saturating_sub(16 - self.rfc.ls);
        let _ = unused;
        // number read from v digits = checksum << (v*w - (16 - ls))... with Appendix-B ls the v*w bits are exactly the top v*w bits of the 16-bit field
        let expect_encoded = ((value << self.rfc.ls) & 0xffff) >> (16 - self.rfc.v as u32 * self.rfc.w);
        if encoded != expect_encoded {
            let lost = self.rfc.ls as i32 - self.libo.ls as i32;
            let k = if self.libo.ls != self.rfc.ls && encoded == (((value << self.libo.ls) & 0xffff) >> (16 - self.rfc.v as u32 * self.rfc.w)) {
                format!("C12:checksum_truncated:n={}:w={}:lost_bits={}", self.rfc.n, self.rfc.w, lost)
            } else {
                self.key("checksum_not_encoded")
            };
            self.r.violation(&k, &format!("checksum {value} is encoded as {encoded} in the v={} checksum digits (expected {expect_encoded}): low checksum bits are not signed", self.rfc.v), self.replay(digest));
        }
        self.r.distinct(&format!("{}|{}|{}", self.alg.name(), self.rfc.w, class));
        if self.r.samples.len() < 6 && class == "random" {
            self.r.sample(
                self.replay(digest)
                    .with("library_digits", J::Arr(got.iter().map(|d| J::Int(*d as i128)).collect()))
                    .with("checksum", J::Int(value as i128))
                    .with("agrees_with_appendix_b", J::Bool(got.iter().map(|x| *x as u32).collect::<Vec<_>>() == want)),
            );
        }
        Some(got)
    }

    /// d2 differs from d1; neither digit vector may dominate the other
    fn check_pair(&mut self, d1: &[u8], g1: &[u8], d2: &[u8], class: &str) {
        if d1 == d2 {
            return;
        }
        let g2 = match self.check(d2, class) {
            Some(g) => g,
            None => return,
        };
        self.r.count("domination_pairs", 1);
        if g2.len() != g1.len() {
            return;
        }
        if dominates(&g2, g1) || dominates(g1, &g2) {
            self.r.violation(
                &self.key("domination"),
                &format!(
                    "digit vector of digest {} dominates that of digest {}: a signature on one can be turned into a signature on the other",
                    model::json::hex(if dominates(&g2, g1) { d2 } else { d1 }),
                    model::json::hex(if dominates(&g2, g1) { d1 } else { d2 })
                ),
                self.replay(d1).with("other_digest", J::hex(d2)).with("class", J::s(class)),
            );
        }
    }
}

fn run_job(job: Job, w: &mut Worker, ctx: &Ctx) {
    let alg = job.alg;
    let n = alg.n();
    let code = params::code_of_w(job.w);
    let rfc = params::ots_rfc(n, job.w);
    let libo = params::ots(&Cfg { alg, ls: LsMode::LibCompat, h2: true }, code).unwrap();
    let mut rng = Rng::new(ctx.seed).fork(&format!("c12-{}-{}-{}", alg.name(), job.w, job.part));
    let mut ck = Checker { r: &mut w.report, alg, code, rfc, libo };

    let thin = ctx.miri;
    if job.part == 0 {
        // parameter table
        ck.r.eval();
        match hook_params(alg, code) {
            Some((hn, hw, hp, hls)) => {
                if hn != n || hw as u32 != job.w {
                    ck.r.violation(&ck.key("n_w"), &format!("type code {code} has (n,w)=({hn},{hw})"), J::Null);
                }
                if hp as usize != rfc.p {
                    ck.r.violation(&ck.key("p_table"), &format!("p = {hp}, Appendix B gives {}", rfc.p), J::Null);
                }
                if hls as u32 != rfc.ls {
                    ck.r.violation(
                        &format!("C12:ls:n={}:w={}:lib={}:rfc={}", n, job.w, hls, rfc.ls),
                        &format!("checksum left shift ls = {hls}, Appendix B gives 16 - w*v = {}", rfc.ls),
                        J::Null,
                    );
                }
                ck.r.count("parameter_sets", 1);
            }
            None => ck.r.violation(&ck.key("type_unknown"), "LM-OTS type code not known to the library", J::Null),
        }
        // exhaustive digit extraction: every byte position x every byte value, on two backgrounds
        let backgrounds: &[u8] = if thin { &[0xa5] } else { &[0x00, 0xa5] };
        for &bg in backgrounds {
            for pos in 0..n {
                for val in (0..=255u8).step_by(if thin { 51 } else { 1 }) {
                    let mut d = vec![bg; n];
                    d[pos] = val;
                    ck.check(&d, &format!("byte{pos}"));
                }
            }
        }
        ck.r.count("exhaustive_byte_cases", (backgrounds.len() * n * if thin { 6 } else { 256 }) as i128);
        // exhaustive over every attainable checksum value
        let max = (1u32 << job.w) - 1;
        let tstep = if thin { ((rfc.u as u32 * max) / 24).max(1) as usize } else { 1 };
        for target in (0..=(rfc.u as u32 * max)).step_by(tstep) {
            // digest whose digits sum to u*max - target  (checksum = target)
            let mut d = vec![0u8; n];
            let mut need = rfc.u as u32 * max - target;
            let start = rng.range(0, rfc.u);
            for k in 0..rfc.u {
                let i = (start + k) % rfc.u;
                let v = need.min(max);
                set_digit(&mut d, i, job.w, v);
                need -= v;
            }
            assert_eq!(lmots::cksm_value(&rfc, &d), target);
            let g = ck.check(&d, "checksum-value");
            // neighbours that keep / lower the checksum by the smallest step
            if let Some(g) = g {
                if let Some(i) = (0..rfc.u).find(|i| lmots::coef(&d, *i, job.w) < max) {
                    let mut d2 = d.clone();
                    let cur = lmots::coef(&d, i, job.w);
                    set_digit(&mut d2, i, job.w, cur + 1);
                    ck.check_pair(&d, &g, &d2, "one-digit+1");
                }
            }
        }
        ck.r.count("checksum_values", (rfc.u as u32 * max + 1) as i128);
    }
    // random digests + adversarial neighbours
    let randoms = if thin { ctx.size(24, 200) } else { ctx.size(400_000, 4_000_000) / job.parts.max(1) };
    let max = (1u32 << job.w) - 1;
    let mut prev: Option<(Vec<u8>, Vec<u8>)> = None;
    for k in 0..randoms {
        let mut d = rng.bytes(n);
        // sprinkle extreme bytes: all-zero / all-one digits are where checksum bugs hide
        if k % 5 == 0 {
            for _ in 0..rng.range(1, 6) {
                let p = rng.range(0, n);
                d[p] = if rng.chance(1, 2) { 0x00 } else { 0xff };
            }
        }
        let g = match ck.check(&d, "random") {
            Some(g) => g,
            None => continue,
        };
        // one digit raised by 1..max
        let i = rng.range(0, rfc.u);
        let cur = lmots::coef(&d, i, job.w);
        if cur < max {
            let mut d2 = d.clone();
            set_digit(&mut d2, i, job.w, cur + 1 + rng.below((max - cur) as u64) as u32);
            ck.check_pair(&d, &g, &d2, "one-digit-raised");
        }
        // two digits moved in opposite directions (sum kept)
        let j = rng.range(0, rfc.u);
        let cj = lmots::coef(&d, j, job.w);
        if i != j && cur < max && cj > 0 {
            let mut d2 = d.clone();
            set_digit(&mut d2, i, job.w, cur + 1);
            set_digit(&mut d2, j, job.w, cj - 1);
            ck.check_pair(&d, &g, &d2, "sum-kept");
        }
        // a whole byte raised to 0xff
        let p = rng.range(0, n);
        if d[p] != 0xff {
            let mut d2 = d.clone();
            d2[p] = 0xff;
            ck.check_pair(&d, &g, &d2, "byte-to-ff");
        }
        if let Some((pd, pg)) = &prev {
            ck.check_pair(pd, pg, &d, "random-pair");
        }
        prev = Some((d, g));
    }
}

/// chain positions recovered from a released signature must be the hook's digits of Q
fn end_to_end(alg: Alg, wv: u32, w: &mut Worker, ctx: &Ctx) {
    let cfg = Cfg::lib(alg);
    let n = alg.n();
    let lv = vec![Level { h: 2, w: wv }];
    let mut rng = Rng::new(ctx.seed).fork(&format!("c12-e2e-{}-{}", alg.name(), wv));
    let seed = rng.bytes(n);
    let code = params::code_of_w(wv);
    let o = params::ots(&cfg, code).unwrap();
    let kp = match libcall::keygen(alg, &lv, &seed, None) {
        Out::Ok(k) => k,
        _ => return,
    };
    let tid = model::hss::root_tree_id(&cfg, &seed);
    let top = (1u32 << wv) - 1;
    let sigs = if wv == 8 { 1 } else { 3 };
    for q in 0..sigs {
        let mut blob = kp.sk.clone();
        blob[..8].copy_from_slice(&(q as u64).to_be_bytes());
        let msg = rng.bytes(20);
        let rec = libcall::sign_bytes(alg, &blob, &msg, Cb::Accept, None);
        let sig = match rec.result {
            Out::Ok(s) => s,
            _ => continue,
        };
        let lay = match model::hss::parse_sig(&cfg, &sig) {
            Some(l) => l,
            None => continue,
        };
        let s = &lay.sigs[0];
        let c = &sig[s.off_c..s.off_c + n];
        let qd = lmots::message_digest(&cfg, &tid.i, q, c, &msg);
        let hook = match hook_digits(alg, code, &qd) {
            Ok(Some(g)) => g,
            _ => continue,
        };
        w.report.eval();
        let mut recovered: Vec<i64> = Vec::new();
        for i in 0..o.p {
            let x = lmots::ots_secret(&cfg, &tid.i, q, i as u16, &tid.seed);
            let end = lmots::chain(&cfg, &tid.i, q, i as u16, &x, 0, top);
            let y = &sig[s.off_y + i * n..s.off_y + (i + 1) * n];
            let mut found: i64 = -1;
            for a in 0..=top {
                if lmots::chain(&cfg, &tid.i, q, i as u16, y, a, top) == end && lmots::chain(&cfg, &tid.i, q, i as u16, &x, 0, a) == y {
                    found = a as i64;
                    break;
                }
            }
            recovered.push(found);
        }
        w.report.count("e2e_signatures", 1);
        let hook_i: Vec<i64> = hook.iter().map(|x| *x as i64).collect();
        if recovered != hook_i {
            let i = recovered.iter().zip(hook_i.iter()).position(|(a, b)| a != b).unwrap_or(0);
            w.report.violation(
                &format!("C12:e2e_positions:n={}:w={}", n, wv),
                &format!("chain {i} of a released signature sits at position {} but the encoding function gives {}", recovered[i], hook_i[i]),
                J::obj().with("hash", J::s(alg.name())).with("w", J::Int(wv as i128)).with("seed", J::hex(&seed)).with("q", J::Int(q as i128)).with("message", J::hex(&msg)),
            );
        }
        w.report.distinct(&format!("e2e|{}|{}|{}", alg.name(), wv, q));
    }
}

enum Task {
    Enc(Job),
    E2e(Alg, u32),
}

pub fn run(ctx: &Ctx) -> Report {
    let mut tasks = Vec::new();
    let parts = 4;
    let mut k = 0usize;
    for alg in model::ALL_ALGS {
        for wv in [1u32, 2, 4, 8] {
            if ctx.miri {
                // Miri stage: the encoding functions only (no hashing), thinned, this shard's share
                if ctx.mine(k) {
                    tasks.push(Task::Enc(Job { alg, w: wv, part: 0, parts: 1 }));
                }
                k += 1;
                continue;
            }
            for part in 0..parts {
                tasks.push(Task::Enc(Job { alg, w: wv, part, parts }));
            }
            if !(ctx.quick() && alg.is_shake() && wv == 8) {
                tasks.push(Task::E2e(alg, wv));
            }
        }
    }
    let mut rep = par_run(ctx, tasks, |t, w| match t {
        Task::Enc(j) => run_job(j, w, ctx),
        Task::E2e(a, wv) => end_to_end(a, wv, w, ctx),
    });
    if ctx.miri {
        rep.rule = "Miri stage: the real append_checksum_to + coef (hook) under the interpreter for this shard's share of the 12 (n,w) x 2 hash families: parameter table, thinned byte-position x value sweep, 24 checksum values spread over the attainable range, random digests with neighbour pairs; same Appendix-B oracle".into();
        if rep.counter("parameter_sets") == 0 {
            rep.inconclusive("the interpreter evaluated no parameter set");
        }
        return rep;
    }
    rep.exhaustive = Some(true);
    rep.rule = "for all 12 (n,w) under both hash families, through the hook that runs the real append_checksum_to + coef: exhaustive over every digest byte position x byte value (two backgrounds) and over every attainable checksum value 0..u(2^w-1) (a digest is constructed per value); random digests with extreme bytes; domination search on neighbours (one digit raised, sum-preserving swaps, byte to 0xff) and random pairs; chain positions recovered from released signatures compared with the hook; \
                oracle = Appendix-B formulas (p, ls, coef, Cksm); distinct_nontrivial = distinct (hash, w, case class incl. byte position)"
        .into();
    if rep.counter("parameter_sets") != 24 {
        rep.inconclusive("not all 12 (n,w) x 2 hash families were reached");
    }
    if rep.counter("domination_pairs") == 0 {
        rep.inconclusive("no digest pair examined for domination");
    }
    if rep.counter("e2e_signatures") == 0 {
        rep.inconclusive("hook not tied to released signatures");
    }
    crate::props::shared::add_assumptions(&mut rep);
    rep
}
