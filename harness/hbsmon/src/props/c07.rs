//! C07: released signatures are byte-exact RFC 8554 HSS signatures for the current counter.
//!
//! Refuted by: a released signature that differs from the independent model signer's output for
//! the same (hash, private key bytes, message); that the independent model verifier rejects;
//! whose length differs from the RFC formula; or (SHA-256/32, real heights) that the hash-sigs
//! tool rejects.

use model::hss::{self, UpperC};
use model::params::{self, LsMode};
use model::{Alg, Cfg, Report, J};

use crate::common::{lcfg, par_run, Ctx, RefTool, Worker};
use crate::props::c01::{self, Release};
use crate::props::shared;

fn counter_class(lv: &[model::Level], c: u64) -> String {
    let total = hss::total_leaves(lv) as u64;
    if c == 0 {
        "first".into()
    } else if c == total - 1 {
        "last".into()
    } else if let Some(l) = c01::rollover_level(lv, c) {
        format!("after-rollover-of-level-{l}")
    } else if c01::rollover_level(lv, c + 1).is_some() {
        "before-rollover".into()
    } else {
        "middle".into()
    }
}

pub fn check(w: &mut Worker, rel: &Release, tool: Option<&RefTool>, tool_every: u64) {
    let c = rel.case;
    let alg = c.alg;
    let cfg = lcfg(alg);
    let lvs = model::params::levels_to_string(&c.levels);
    w.report.eval();
    let replay = || shared::replay_doc("C07", alg, &c.levels, &c.seed, rel.counter, rel.msg).with("signature", J::hexa(rel.sig));
    let keyp = |what: &str| format!("C07:{what}:{}:{}", alg.name(), lvs);

    // RFC length formula
    let want_len = params::hss_sig_len(&cfg, &c.levels);
    if rel.sig.len() != want_len {
        w.report.violation(&keyp("length"), &format!("signature has {} bytes, RFC formula gives {}", rel.sig.len(), want_len), replay());
    }
    // byte comparison with the independent signer (checksum shifts as the tree tabulates them)
    let b = match hss::parse_blob(&cfg, rel.blob) {
        Some(b) => b,
        None => {
            w.report.inconclusive("model could not parse a private key the library signed with");
            return;
        }
    };
    let msig = hss::sign(&cfg, &mut w.cache, &b, rel.msg, UpperC::ChildSeed, None);
    w.report.count("byte_comparisons", 1);
    if msig != rel.sig {
        let field = shared::first_difference(&cfg, &msig, rel.sig);
        let fclass: String = field.split(" (").next().unwrap_or("").chars().filter(|ch| !ch.is_ascii_digit()).collect();
        w.report.violation(
            &format!("C07:bytes:{}:{}:{}", alg.name(), lvs, fclass.trim().replace(' ', "_")),
            &format!("released signature differs from the independent RFC 8554 signer at counter {}: first difference in {}", rel.counter, field),
            replay().with("model_signature", J::hexa(&msig)),
        );
    } else {
        w.report.count("byte_identical", 1);
    }
    // independent verifier
    if !hss::verify(&cfg, rel.msg, rel.sig, rel.vk) {
        w.report.violation(&keyp("model_rejects"), &format!("independent RFC 8554 verifier rejects the signature released at counter {}", rel.counter), replay());
    } else {
        w.report.count("model_accepts", 1);
    }
    // strict Appendix-B parameters: the three tabulated deviations are the known finding of C12
    let mut deviating: Vec<(usize, u32)> = Vec::new();
    for l in &c.levels {
        if params::lib_ls_deviation(alg.n(), l.w).is_some() && !deviating.contains(&(alg.n(), l.w)) {
            deviating.push((alg.n(), l.w));
        }
    }
    if !deviating.is_empty() {
        let strict = Cfg { alg, ls: LsMode::Rfc, h2: true };
        let ssig = hss::sign(&strict, &mut w.cache, &b, rel.msg, UpperC::ChildSeed, None);
        w.report.count("strict_comparisons", 1);
        if ssig != rel.sig || !hss::verify(&strict, rel.msg, rel.sig, rel.vk) {
            for (n, wv) in deviating {
                w.report.violation(
                    &format!("C07:ls:n={n}:w={wv}"),
                    &format!("signature of LM-OTS (n={n}, w={wv}) is not the RFC 8554 / SP 800-208 signature: checksum shift ls={} instead of {} changes the checksum chains", params::lib_ls_deviation(n, wv).unwrap(), params::ots_rfc(n, wv).ls),
                    replay(),
                );
            }
        }
    }
    // the reference tool as a third opinion
    if let Some(t) = tool {
        if alg == Alg::Sha256_256 && c.levels.iter().all(|l| l.h >= 5) && w.report.counter("tool_verifications") as u64 * tool_every <= w.report.counter("byte_comparisons") as u64 {
            w.report.count("tool_verifications", 1);
            match t.verify_bytes(&format!("{}", w.id), rel.msg, rel.sig, rel.vk) {
                Some(true) => {}
                Some(false) => w.report.violation(&keyp("tool_rejects"), &format!("hash-sigs tool rejects the signature released at counter {}", rel.counter), replay()),
                None => w.report.inconclusive("reference tool gave no verdict"),
            }
        }
    }
    let cls = counter_class(&c.levels, rel.counter);
    let nontrivial = !(alg.n() == 32 && c.levels.len() == 1 && rel.counter == 0 && (c.levels[0].w == 1 || c.levels[0].w == 2));
    if nontrivial {
        w.report.distinct(&format!("{}|{}|{}", alg.name(), lvs, cls));
    }
    if w.report.samples.len() < 6 && rel.counter > 0 {
        w.report.sample(replay().with("counter_class", J::s(&cls)).with("byte_identical_to_model", J::Bool(msig == rel.sig)));
    }
}

pub fn run(ctx: &Ctx) -> Report {
    let mut rng = ctx.rng("c07");
    let mut cases = c01::build_cases(ctx, &mut rng);
    if ctx.quick() {
        // the model signer costs as much as the library's: keep the grid, shorten the walks
        cases.retain(|c| match &c.plan {
            c01::Plan::Walk { count, .. } => *count <= 128,
            _ => true,
        });
    }
    c01::sort_and_report_cost(&mut cases);
    let tool = RefTool::new(ctx, "c07");
    let tool_ref = tool.as_ref();
    let hook = move |w: &mut Worker, rel: &Release| check(w, rel, tool_ref, 5);
    let mut rep = par_run(ctx, cases, |c, w| c01::run_case("C07", c, w, ctx, &hook));
    rep.rule = "every released signature of the C01 grid (6 hashes x W x heights x 1..8 levels, boundary counters, lifetime walks) is compared byte for byte with an independently written RFC 8554 signer run on the same private-key bytes and message, checked against the RFC length formula, verified by the independent verifier and (SHA-256/32, real heights, every 5th) by the hash-sigs tool; \
                distinct_nontrivial = distinct (hash, parameter list, counter class) outside SHA-256/32 single-level W1/W2 at counter 0"
        .into();
    if rep.counter("byte_comparisons") < 500 {
        rep.inconclusive("fewer than 500 signatures compared");
    }
    if rep.counter("tool_verifications") == 0 {
        rep.inconclusive("reference tool never consulted");
    }
    rep.assumptions.push("upper-level randomizer rule and the 55-byte PRNG block for n<32 are pinned to the tree under test (DESIGN.md 2.1)".into());
    shared::add_assumptions(&mut rep);
    rep
}
