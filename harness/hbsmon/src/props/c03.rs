//! C03: no one-time key ever signs two different contents, over any signing history.
//!
//! A seeded generator plays complete-lifetime histories of sign / refused sign / crashing
//! callback / reload / entry-point switches / aux variants, always continuing from the most
//! recently persisted key.  Oracles over the recorded history (taken at the API boundary only):
//!  * OTS ghost map (level, I, q) -> digest(C || content), I taken from public material;
//!  * the n-th released signature carries exactly the mixed-radix digits of n-1;
//!  * consecutive persisted keys differ only by counter + 1 (wiped key after the last leaf).

use model::hss;
use model::{Alg, Level, Report, Rng, J};

use crate::common::{lcfg, levels, par_run, Ctx, Worker};
use crate::libcall::{self, AuxBuf, Cb, Out, SignEntry};
use crate::props::shared::{self, GhostMap};

struct Hist {
    alg: Alg,
    levels: Vec<Level>,
    seed: Vec<u8>,
    id: usize,
    /// per-mille weights: refuse, crash, reload, key-entry, aux, same-message
    mix: [u64; 6],
    /// (first counter, number of signatures) of the stretches of the key's life that are played;
    /// empty = the complete lifetime.  All stretches share one ghost map, so that a one-time key
    /// used in two distant stretches is seen.
    windows: Vec<(u64, u64)>,
    /// always sign with the aux buffer key generation filled (keys whose top tree is too big to
    /// be rebuilt for every signature)
    live_aux_only: bool,
}

fn mix_label(m: &[u64; 6]) -> String {
    m.iter().map(|x| format!("{}", x / 100)).collect::<Vec<_>>().join("")
}

#[cfg(feature = "fv")]
fn sign_mut_step(alg: Alg, blob: &[u8], msg: &[u8], cb: Cb) -> (libcall::SignRec, Vec<u8>) {
    let mut m = msg.to_vec();
    if m.is_empty() {
        m.push(0x5a);
    }
    m.extend(std::iter::repeat(0u8).take(alg.n()));
    let (rec, _) = libcall::sign_mut(alg, blob, &mut m, cb);
    (rec, m)
}

/// sign_mut on the buffer exactly as given (accepting callback)
#[cfg(feature = "fv")]
fn sign_mut_raw(alg: Alg, blob: &[u8], msg: &[u8]) -> (libcall::SignRec, Vec<u8>) {
    let mut m = msg.to_vec();
    let (rec, _) = libcall::sign_mut(alg, blob, &mut m, Cb::Accept);
    (rec, m)
}

#[cfg(not(feature = "fv"))]
fn sign_mut_raw(_alg: Alg, _blob: &[u8], msg: &[u8]) -> (libcall::SignRec, Vec<u8>) {
    (libcall::SignRec { result: Out::Err, cb_args: Vec::new(), late_callbacks: 0, key_after: None }, msg.to_vec())
}

#[cfg(not(feature = "fv"))]
fn sign_mut_step(_alg: Alg, _blob: &[u8], msg: &[u8], _cb: Cb) -> (libcall::SignRec, Vec<u8>) {
    (libcall::SignRec { result: Out::Err, cb_args: Vec::new(), late_callbacks: 0, key_after: None }, msg.to_vec())
}

fn run_hist(h: Hist, w: &mut Worker, ctx: &Ctx) {
    let cfg = lcfg(h.alg);
    let lvs = model::params::levels_to_string(&h.levels);
    let mut rng = Rng::new(ctx.seed).fork(&format!("c03-h{}", h.id));
    let mut valid_aux = AuxBuf::new(vec![0u8; if h.live_aux_only { 40_000 } else { 700 }]);
    let kp = match libcall::keygen(h.alg, &h.levels, &h.seed, Some(&mut valid_aux)) {
        Out::Ok(k) => k,
        other => {
            w.report.violation(&format!("C03:keygen:{}:{}", h.alg.name(), lvs), &format!("keygen failed: {}", other.describe()), J::Null);
            return;
        }
    };
    let total = hss::total_leaves(&h.levels).min(u64::MAX as u128) as u64;
    let complete = h.windows.is_empty();
    let windows: Vec<(u64, u64)> = if complete { vec![(0, total)] } else { h.windows.clone() };
    let mut persisted = kp.sk.clone();
    let mut aux_live = valid_aux.clone(); // an aux buffer that travels with the key
    let stale_aux = if h.live_aux_only {
        AuxBuf::new(vec![0u8; 8])
    } else {
        // aux of another key (other seed): must never be believed
        let mut a = AuxBuf::new(vec![0u8; 700]);
        let other_seed = rng.bytes(h.alg.n());
        let _ = libcall::keygen(h.alg, &h.levels, &other_seed, Some(&mut a));
        a
    };
    let mut ghost = GhostMap::new();
    let mut released: u64 = 0;
    let mut released_total: u64 = 0;
    let mut last_msg: Vec<u8> = b"first".to_vec();
    let mut log: Vec<String> = Vec::new(); // compact history for the witness
    let mut failed_attempts = 0u64;
    let mut reloads = 0u64;
    let mut steps = 0u64;
    let hist_key = |what: &str| format!("C03:{what}:{}:{}", h.alg.name(), lvs);
    let witness = |log: &Vec<String>, persisted: &Vec<u8>| {
        J::obj()
            .with("property", J::s("C03"))
            .with("hash", J::s(h.alg.name()))
            .with("levels", J::s(&lvs))
            .with("seed", J::hex(&h.seed))
            .with("history_id", J::u(h.id))
            .with("step_mix", J::s(&mix_label(&h.mix)))
            .with("history_tail", J::Arr(log.iter().rev().take(12).rev().map(|s| J::s(s)).collect()))
            .with("persisted_key", J::hex(persisted))
    };
    for (wstart, wcount) in windows {
    // the state a key is in after `wstart` signatures (the bytes are the state)
    persisted = hss::make_blob(wstart, &h.levels, &h.seed);
    released = wstart;
    let wend = wstart.saturating_add(wcount).min(total);
    steps = 0;
    while released < wend && steps < wcount * 6 + 50 {
        steps += 1;
        let roll = rng.below(1000);
        let mlen = rng.range(0, 48) + 1;
        let msg: Vec<u8> = if rng.below(1000) < h.mix[5] { last_msg.clone() } else { rng.bytes(mlen) };
        // reload from storage: the object is parsed and thrown away
        if roll < h.mix[2] {
            let _ = libcall::signing_key_from_bytes(h.alg, &persisted);
            if rng.below(4) == 0 {
                let _ = libcall::lifetime(h.alg, &persisted);
            }
            reloads += 1;
            log.push("reload".into());
            continue;
        }
        let use_aux = h.live_aux_only || rng.below(1000) < h.mix[4];
        let aux_kind = if h.live_aux_only { 0 } else { rng.below(3) };
        let mut aux_tmp;
        let aux: Option<&mut AuxBuf> = if use_aux {
            match aux_kind {
                0 => Some(&mut aux_live),
                1 => {
                    aux_tmp = stale_aux.clone();
                    Some(&mut aux_tmp)
                }
                _ => {
                    aux_tmp = AuxBuf::new(vec![0u8; 300]);
                    Some(&mut aux_tmp)
                }
            }
        } else {
            None
        };
        // in a fast_verify build: now and then a sign_mut call that must be refused because of its
        // message buffer (trailer not blank, or too short).  Whatever the callback is handed during
        // such a call is persisted, as a real caller's storage layer would do
        if cfg!(feature = "fv") && rng.below(8) == 0 {
            let mut bad = msg.clone();
            if rng.below(2) == 0 {
                bad.extend(std::iter::repeat(0u8).take(h.alg.n()));
                let l = bad.len();
                bad[l - 1 - rng.range(0, h.alg.n())] = 0x80;
            } else {
                bad.truncate(h.alg.n().min(bad.len()));
            }
            let (r, _) = sign_mut_raw(h.alg, &persisted, &bad);
            w.report.eval();
            failed_attempts += 1;
            log.push("sign_mut(bad buffer)".into());
            if r.result.is_ok() {
                w.report.violation(&hist_key("released_for_bad_buffer"), "sign_mut released a signature for a message buffer it must refuse", witness(&log, &persisted));
            }
            if let Some(k) = r.cb_args.first() {
                w.report.violation(&hist_key("key_advanced_without_release"), "a refused sign_mut call handed a new key to the update callback: the persisted key advanced although nothing was released", witness(&log, &persisted));
                persisted = k.clone();
            }
            continue;
        }
        // in a build with the library's fast_verify feature a quarter of the steps go through
        // hbs_lms::sign_mut (the signed content is then the message as the call left it)
        #[allow(unused_mut)]
        let mut msg = msg;
        let use_sign_mut = cfg!(feature = "fv") && rng.below(4) == 0;
        let (rec, entry, script) = if use_sign_mut {
            let refuse = roll < h.mix[2] + h.mix[0];
            let (r, m) = sign_mut_step(h.alg, &persisted, &msg, if refuse { Cb::Refuse } else { Cb::Accept });
            msg = m;
            (r, SignEntry::Bytes, if refuse { "refuse" } else { "accept" })
        } else if roll < h.mix[2] + h.mix[0] {
            // a refusing storage layer; half of the time one that would accept a second attempt
            let how = if rng.below(2) == 0 { Cb::Refuse } else { Cb::FailOnce };
            (libcall::sign_bytes(h.alg, &persisted, &msg, how, aux), SignEntry::Bytes, "refuse")
        } else if roll < h.mix[2] + h.mix[0] + h.mix[1] {
            // the storage layer crashes inside the callback
            let r = crate::libcall::sign_bytes_crashing(h.alg, &persisted, &msg);
            (r, SignEntry::Bytes, "crash")
        } else if roll < h.mix[2] + h.mix[0] + h.mix[1] + h.mix[3] {
            let e = if use_aux { SignEntry::TrySignAux } else { SignEntry::TrySign };
            (libcall::sign_key(h.alg, &persisted, &msg, e, aux), e, "accept")
        } else {
            (libcall::sign_bytes(h.alg, &persisted, &msg, Cb::Accept, aux), SignEntry::Bytes, "accept")
        };
        w.report.eval();
        let counter_before = u64::from_be_bytes(persisted[..8].try_into().unwrap());
        match &rec.result {
            Out::Ok(sig) => {
                if script != "accept" {
                    w.report.violation(&hist_key("released_without_persist"), &format!("a signature was released although the key update was {script}d (callback invocations: {})", rec.cb_args.len()), witness(&log, &persisted));
                }
                released += 1;
                released_total += 1;
                w.report.count("released_signatures", 1);
                log.push(format!("sign#{released}@{counter_before}:{entry:?}"));
                // leaf indices = mixed-radix digits of released-1
                let want = hss::leaf_digits(&h.levels, released - 1);
                match hss::parse_sig(&cfg, sig) {
                    Some(lay) => {
                        let got: Vec<u32> = lay.sigs.iter().map(|s| u32::from_be_bytes(sig[s.off_q..s.off_q + 4].try_into().unwrap())).collect();
                        if got != want {
                            w.report.violation(
                                &hist_key("leaf_indices"),
                                &format!("signature #{released} carries leaf indices {got:?}, mixed-radix digits of {} are {want:?}", released - 1),
                                witness(&log, &persisted),
                            );
                        }
                    }
                    None => w.report.violation(&hist_key("unparsable"), "released signature cannot be parsed", witness(&log, &persisted)),
                }
                match ghost.observe(&cfg, &msg, sig, &kp.vk) {
                    Ok(fresh) => w.report.count("one_time_keys_first_use", fresh as i128),
                    Err((lvl, q)) => w.report.violation(
                        &hist_key(&format!("ots_reuse_level{lvl}")),
                        &format!("one-time key (level {lvl}, leaf {q}) signed two different contents; second use in signature #{released} after a {} step", log.iter().rev().nth(1).cloned().unwrap_or_default()),
                        witness(&log, &persisted),
                    ),
                }
                // persisted successor
                // what the caller's storage holds now: the last key its callback was handed
                let next = match entry {
                    SignEntry::Bytes => rec.cb_args.last().cloned(),
                    _ => rec.key_after.clone(),
                };
                match next {
                    Some(nb) => {
                        let want_next = if counter_before + 1 < total { hss::make_blob(counter_before + 1, &h.levels, &h.seed) } else { hss::wiped_blob(h.alg.n()) };
                        if nb != want_next && !(counter_before + 1 >= total && hss::is_wiped(&nb, h.alg.n())) {
                            w.report.violation(
                                &hist_key("successor"),
                                &format!("persisted key after signature #{released} is {} (expected counter {} with unchanged parameters and seed)", model::json::hex(&nb), counter_before + 1),
                                witness(&log, &persisted),
                            );
                        }
                        persisted = nb;
                    }
                    None => {
                        w.report.violation(&hist_key("no_successor"), "signature released without a successor key", witness(&log, &persisted));
                        break;
                    }
                }
                last_msg = msg;
            }
            Out::Err | Out::Panic(_) => {
                if rec.cb_args.len() > 1 {
                    w.report.violation(&hist_key("callback_retried"), &format!("the update callback was invoked {} times in one failing call", rec.cb_args.len()), witness(&log, &persisted));
                }
                failed_attempts += 1;
                log.push(format!("failed({script})@{counter_before}"));
                if script == "accept" {
                    w.report.violation(
                        &hist_key("live_sign_failed"),
                        &format!("signing failed on a live key at counter {counter_before}: {}", rec.result.describe()),
                        witness(&log, &persisted),
                    );
                    break;
                }
                // nothing was released: the persisted key must not have moved (SigningKey path)
                if let Some(after) = &rec.key_after {
                    if *after != persisted {
                        w.report.violation(&hist_key("moved_on_failure"), "in-memory key moved although nothing was released", witness(&log, &persisted));
                    }
                }
            }
        }
    }
    }
    // after the last leaf: the persisted key refuses, with every entry point
    if released == total {
        let rec = libcall::sign_bytes(h.alg, &persisted, b"after the end", Cb::Accept, None);
        if rec.result.is_ok() {
            w.report.violation(&hist_key("signs_after_exhaustion"), "a signature was released after the last leaf had been used", witness(&log, &persisted));
        }
    }
    // every one-time key on every level that the walk entered was seen exactly once
    let mut expect_keys: u64 = 0;
    let mut span = total;
    for l in &h.levels {
        // number of distinct (tree, leaf) pairs used on this level over a complete lifetime
        span >>= l.h;
        expect_keys += total / span.max(1);
    }
    if complete {
        w.report.count("one_time_keys_expected", expect_keys as i128);
    } else {
        w.report.count("tall_key_stretches_played", 1);
    }
    w.report.count("repeated_content_hits", ghost.repeats as i128);
    w.report.count("failed_attempts", failed_attempts as i128);
    w.report.count("reloads", reloads as i128);
    w.report.count("histories", 1);
    if complete && released == total && ghost.len() as u64 != expect_keys {
        w.report.violation(
            &hist_key("ots_key_count"),
            &format!("a complete lifetime used {} distinct one-time keys, expected {}", ghost.len(), expect_keys),
            witness(&log, &persisted),
        );
    }
    if failed_attempts > 0 && reloads > 0 {
        w.report.distinct(&format!("{}|{}|{}", h.alg.name(), lvs, mix_label(&h.mix)));
    }
    if w.report.samples.len() < 4 {
        w.report.sample(witness(&log, &persisted).with("released", J::Int(released_total as i128)).with("failed_attempts", J::Int(failed_attempts as i128)).with("reloads", J::Int(reloads as i128)));
    }
}

pub fn run(ctx: &Ctx) -> Report {
    let mut rng = ctx.rng("c03");
    let mut hists = Vec::new();
    let small: Vec<Vec<(u32, u32)>> = vec![
        vec![(2, 8)],
        vec![(2, 4), (2, 8)],
        vec![(2, 8), (2, 2), (2, 4)],
        vec![(2, 2), (2, 8), (2, 4), (2, 8)],
    ];
    let medium: Vec<Vec<(u32, u32)>> = vec![vec![(5, 4)], vec![(2, 8), (5, 4)], vec![(5, 4), (2, 8)], vec![(2, 4), (5, 2), (2, 8)]];
    let per_small = ctx.size(6, 60);
    let per_medium = ctx.size(1, 8);
    let mut id = 0;
    for alg in model::ALL_ALGS {
        for (shapes, reps) in [(&small, per_small), (&medium, per_medium)] {
            for spec in shapes.iter() {
                for _ in 0..reps {
                    let mut lv = levels(spec);
                    // vary W per history
                    for l in lv.iter_mut() {
                        if l.h == 2 {
                            l.w = *rng.pick(&[1u32, 2, 4, 8]);
                        } else if alg.is_shake() {
                            l.w = *rng.pick(&[1u32, 2]);
                        } else {
                            l.w = *rng.pick(&[2u32, 4, 8]);
                        }
                    }
                    id += 1;
                    let mix = [
                        rng.below(4) * 100 + 20,
                        rng.below(3) * 50 + 10,
                        rng.below(3) * 100 + 20,
                        rng.below(5) * 100,
                        rng.below(6) * 100,
                        rng.below(4) * 100,
                    ];
                    hists.push(Hist { alg, levels: lv, seed: rng.bytes(alg.n()), id, mix, windows: vec![], live_aux_only: false });
                }
            }
        }
    }
    // stretches of the life of keys with a total height above 32: the first signatures, the
    // stretch across 2^32 (where a 32-bit counter or leaf computation wraps), and the end of life
    {
        let tall: Vec<(Alg, Vec<(u32, u32)>)> = if ctx.quick() {
            vec![(Alg::Sha256_128, vec![(5, 8); 7]), (Alg::Sha256_192, vec![(2, 8), (5, 8), (5, 4), (5, 8), (5, 8), (5, 8), (5, 8), (2, 8)])]
        } else {
            vec![
                (Alg::Sha256_128, vec![(5, 8); 7]),
                (Alg::Sha256_192, vec![(2, 8), (5, 8), (5, 4), (5, 8), (5, 8), (5, 8), (5, 8), (2, 8)]),
                (Alg::Sha256_256, vec![(5, 8), (10, 8), (5, 8), (5, 4), (5, 8), (5, 8)]),
                (Alg::Shake256_128, vec![(5, 4); 7]),
            ]
        };
        // a top tree with more than 2^16 leaves: the bottom trees below top leaves q and q + 2^16
        // (and the one-time keys in them) must be different ones; one 2^20-leaf tree per signature
        {
            id += 1;
            hists.push(Hist {
                alg: Alg::Sha256_128,
                levels: levels(&[(20, 2), (2, 8)]),
                seed: rng.bytes(16),
                id,
                mix: [0, 0, 0, 300, 0, 0],
                windows: vec![(7 * 4 + 1, 2), ((65536 + 7) * 4 + 1, 2)],
                live_aux_only: true,
            });
            if !ctx.quick() {
                id += 1;
                hists.push(Hist {
                    alg: Alg::Shake256_128,
                    levels: levels(&[(20, 1), (2, 8)]),
                    seed: rng.bytes(16),
                    id,
                    mix: [0, 0, 0, 300, 0, 0],
                    windows: vec![(3 * 4, 2), ((3 * 65536 + 3) * 4, 2), ((15 * 65536 + 3) * 4 + 1, 1)],
                    live_aux_only: true,
                });
            }
        }
        for (alg, spec) in tall {
            let lv = levels(&spec);
            let total = hss::total_leaves(&lv) as u64;
            let two32 = 1u64 << 32;
            id += 1;
            hists.push(Hist {
                alg,
                levels: lv,
                seed: rng.bytes(alg.n()),
                id,
                mix: [100, 20, 100, 300, 0, 100],
                windows: vec![(0, 4), (two32 - 3, 7), (2 * two32 - 1, 3), (total - 3, 3)],
                live_aux_only: false,
            });
        }
    }
    if !ctx.quick() {
        for alg in [Alg::Sha256_256, Alg::Sha256_128, Alg::Shake256_192] {
            id += 1;
            hists.push(Hist { alg, levels: levels(&[(5, 4), (5, 2)]), seed: rng.bytes(alg.n()), id, mix: [120, 30, 120, 300, 300, 200], windows: vec![], live_aux_only: false });
            id += 1;
            hists.push(Hist { alg, levels: (0..6).map(|i| Level { h: 2, w: [8, 4, 2, 8, 4, 8][i] }).collect(), seed: rng.bytes(alg.n()), id, mix: [80, 20, 80, 300, 200, 100], windows: vec![], live_aux_only: false });
        }
    }
    let played = |h: &Hist| if h.windows.is_empty() { hss::total_leaves(&h.levels) as f64 } else { h.windows.iter().map(|w| w.1 as f64).sum() };
    hists.sort_by(|a, b| {
        let ca = shared::sign_cost(a.alg, &a.levels) * played(a);
        let cb = shared::sign_cost(b.alg, &b.levels) * played(b);
        cb.partial_cmp(&ca).unwrap()
    });
    let n = hists.len();
    let mut rep = par_run(ctx, hists, |h, w| run_hist(h, w, ctx));
    rep.count("histories_planned", n as i128);
    rep.rule = "many short seeded histories over complete key lifetimes (1..4 levels, uniform and mixed heights, all 6 hashes) plus, for 7- and 8-level keys of total height 35..42, the stretches at the start, across 2^32, across 2^33 and at the end of life in one shared ghost map, and for a key with a 2^20-leaf top tree the stretches below top leaves q and q + 2^16: steps = sign(accept) with fresh or repeated message / sign with refusing callback then retry / callback that crashes then retry / reload from the persisted bytes / SigningKey::try_sign[_with_aux] vs byte-level sign / no, own, foreign or fresh aux; \
                the recorded history (signatures returned, keys persisted) is checked offline by the OTS ghost map, the mixed-radix digit rule and the counter+1 rule; \
                distinct_nontrivial = distinct (hash, shape, step mix) histories that contained at least one failed attempt and one reload"
        .into();
    if rep.counter("failed_attempts") == 0 || rep.counter("reloads") == 0 {
        rep.inconclusive("no failed attempt or no reload in any history");
    }
    if rep.counter("released_signatures") < 2000 {
        rep.inconclusive("fewer than 2000 released signatures observed");
    }
    shared::add_assumptions(&mut rep);
    rep
}
