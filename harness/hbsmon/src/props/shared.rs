//! Workload generators and monitors shared by several properties.

use std::collections::HashMap;

use model::hss;
use model::params::{self, Cfg};
use model::{Alg, Level, Report, Rng, J};

use crate::common::{case_json_full, WS};
use crate::libcall::{self, Out, VERIFY_ENTRIES};

/// approximate number of hash compressions to build one tree
pub fn tree_cost(alg: Alg, l: &Level) -> f64 {
    let o = params::ots_rfc(alg.n(), l.w);
    let per_hash = if alg.is_shake() { 9.0 } else { 1.0 };
    (1u64 << l.h) as f64 * o.p as f64 * (1u64 << l.w) as f64 * per_hash
}

/// approximate cost of one library `sign` (every tree on the path is built about twice)
pub fn sign_cost(alg: Alg, levels: &[Level]) -> f64 {
    levels.iter().map(|l| 2.0 * tree_cost(alg, l)).sum()
}

pub fn single_level_grid(heights: &[u32]) -> Vec<Vec<Level>> {
    let mut v = Vec::new();
    for &h in heights {
        for &w in &WS {
            v.push(vec![Level { h, w }]);
        }
    }
    v
}

/// random per-level mix with a cost ceiling (in hash compressions per signature)
pub fn random_levels(rng: &mut Rng, alg: Alg, len: usize, heights: &[u32], budget: f64) -> Vec<Level> {
    for _ in 0..200 {
        let lv: Vec<Level> = (0..len).map(|_| Level { h: *rng.pick(heights), w: *rng.pick(&WS) }).collect();
        if sign_cost(alg, &lv) <= budget {
            return lv;
        }
    }
    // cheapest possible list of that length
    let hmin = *heights.iter().min().unwrap();
    (0..len).map(|_| Level { h: hmin, w: 1 }).collect()
}

pub fn seed_classes(rng: &mut Rng, n: usize, random: usize) -> Vec<(String, Vec<u8>)> {
    let mut v: Vec<(String, Vec<u8>)> = vec![
        ("zero".into(), vec![0u8; n]),
        ("ones".into(), vec![0xffu8; n]),
        ("counting".into(), (0..n as u8).collect()),
    ];
    for pos in [0, n / 2, n - 1] {
        let mut s = vec![0u8; n];
        s[pos] = 1 << (pos % 8);
        v.push((format!("bit@{pos}"), s));
    }
    for i in 0..random {
        v.push((format!("random#{i}"), rng.bytes(n)));
    }
    v
}

pub fn message_of(rng: &mut Rng, len: usize) -> Vec<u8> {
    rng.bytes(len)
}

/// Verify through every library entry point; returns the per-entry outcomes.
pub fn verify_all_entries(alg: Alg, msg: &[u8], sig: &[u8], pk: &[u8]) -> Vec<(libcall::VerifyEntry, Out<()>)> {
    VERIFY_ENTRIES.iter().map(|e| (*e, libcall::verify(alg, msg, sig, pk, *e))).collect()
}

/// (level, I, q) -> digest of what it signed.  A second, different digest under the same key is
/// a one-time-key reuse.
#[derive(Default)]
pub struct GhostMap {
    map: HashMap<(usize, [u8; 16], u32), [u8; 32]>,
    pub repeats: u64,
}

impl GhostMap {
    pub fn new() -> Self {
        Self::default()
    }
    pub fn len(&self) -> usize {
        self.map.len()
    }
    /// Err((level, q)) on reuse with different content
    pub fn observe(&mut self, cfg: &Cfg, msg: &[u8], sig: &[u8], pk: &[u8]) -> Result<usize, (usize, u32)> {
        let uses = match hss::ots_uses(cfg, msg, sig, pk) {
            Some(u) => u,
            None => return Ok(0),
        };
        let mut fresh = 0;
        for u in uses {
            match self.map.get(&(u.level, u.i_tree, u.q)) {
                Some(d) if *d != u.content_digest => return Err((u.level, u.q)),
                Some(_) => self.repeats += 1,
                None => {
                    self.map.insert((u.level, u.i_tree, u.q), u.content_digest);
                    fresh += 1;
                }
            }
        }
        Ok(fresh)
    }
}

pub fn replay_doc(prop: &str, alg: Alg, levels: &[Level], seed: &[u8], counter: u64, msg: &[u8]) -> J {
    case_json_full(alg, levels, seed, counter, msg).with("property", J::s(prop))
}

/// first differing field between two HSS signatures, by the model's layout of `a`
pub fn first_difference(cfg: &Cfg, a: &[u8], b: &[u8]) -> String {
    if a.len() != b.len() {
        return format!("length {} vs {}", a.len(), b.len());
    }
    let pos = match a.iter().zip(b.iter()).position(|(x, y)| x != y) {
        Some(p) => p,
        None => return "identical".into(),
    };
    let n = cfg.n();
    if pos < 4 {
        return format!("Nspk (byte {pos})");
    }
    if let Some(lay) = hss::parse_sig(cfg, a) {
        for (lvl, s) in lay.sigs.iter().enumerate() {
            if pos >= s.start && pos < s.end {
                let f = if pos < s.off_otstype {
                    "q".to_string()
                } else if pos < s.off_c {
                    "otstype".to_string()
                } else if pos < s.off_y {
                    "C".to_string()
                } else if pos < s.off_lmstype {
                    format!("y[{}]", (pos - s.off_y) / n)
                } else if pos < s.off_path {
                    "lmstype".to_string()
                } else {
                    format!("path[{}]", (pos - s.off_path) / n)
                };
                return format!("level {lvl} {f} (byte {pos})");
            }
        }
        for (lvl, (po, pl)) in lay.pubs.iter().enumerate() {
            if pos >= *po && pos < po + pl {
                return format!("embedded public key {lvl} (byte {pos}, offset {} in key)", pos - po);
            }
        }
    }
    format!("byte {pos}")
}

pub fn add_assumptions(r: &mut Report) {
    for a in [
        "sha2/sha3 compression functions are shared by library and model (cross-checked against OpenSSL on samples at calibration)",
        "the model is my reading of RFC 8554 and of the hash-sigs key-file conventions; calibrated against RFC 8554 Appendix F and the hash-sigs tool shipped as tests/demo",
        "library built in the repository's release profile (overflow-checks on, debug-assertions off) with feature verif_hooks",
    ] {
        r.assumptions.push(a.to_string());
    }
}
