//! C02: verification accepts exactly the triples RFC 8554 accepts, and nothing else.
//!
//! Refuted by: a (message, signature, public key) on which the library and the independent
//! RFC 8554 verifier disagree, in either direction (a library panic counts as "not accepted"
//! here and is reported by C06).

use std::sync::Mutex;

use model::hss::{self, UpperC};
use model::lms::TreeCache;
use model::params::{self, LsMode};
use model::{Alg, Cfg, Report, Rng, J};

use crate::common::{lcfg, par_run, Ctx, RefTool, Worker};
use crate::libcall::{self, VerifyEntry};
use crate::props::mutgen::{self, Case, Opts, Triple};
use crate::props::shared;

fn replay(c: &Case) -> J {
    J::obj()
        .with("property", J::s("C02"))
        .with("hash", J::s(c.alg.name()))
        .with("class", J::s(c.class))
        .with("field", J::s(c.field))
        .with("base", J::obj().with("hash", J::s(c.base.alg.name())).with("levels", J::s(&model::params::levels_to_string(&c.base.levels))).with("origin", J::s(c.base.origin)).with("counter", J::Int(c.base.counter as i128)))
        .with("message", J::hex(c.msg))
        .with("signature", J::hex(c.sig))
        .with("public_key", J::hex(c.pk))
}

fn judge(w: &mut Worker, c: Case, tool: Option<&RefTool>, nth: &mut u64) {
    *nth += 1;
    let r = &mut w.report;
    r.eval();
    let cfg = lcfg(c.alg);
    let want = hss::verify(&cfg, c.msg, c.sig, c.pk);
    let got = libcall::verify(c.alg, c.msg, c.sig, c.pk, VerifyEntry::Bytes);
    let lib_accepts = got.is_ok();
    let cls = format!("{}|{}", c.class, c.field);
    r.count(if want { "model_accepts" } else { "model_rejects" }, 1);
    r.count(&format!("class:{}:{}", c.class, if want { "accept" } else { "reject" }), 1);
    if got.panic().is_some() {
        r.count("cross_observation_panics", 1);
        r.note(&format!("cross observation (C06): panic at {} for class {}", got.panic().unwrap().site(), c.class));
    }
    // a build with reduced limits may refuse what lies beyond them (that is what the limits are
    // for, C14): there, a triple the RFC accepts is only required to be accepted if its shape is
    // inside the build's limits; a triple the RFC rejects must be rejected in every build
    let beyond_build = want
        && crate::common::build_limits().is_some()
        && !hss::parse_sig(&cfg, c.sig).map(|l| crate::common::in_build_limits(&l.sigs.iter().map(|s| model::Level { h: s.h, w: s.ots.w }).collect::<Vec<_>>())).unwrap_or(false);
    if beyond_build {
        r.count("accepting_triples_beyond_the_build_limits", 1);
        if !lib_accepts {
            return;
        }
    }
    if lib_accepts != want {
        let dir = if lib_accepts { "lib_accepts_rfc_rejects" } else { "lib_rejects_rfc_accepts" };
        r.violation(
            &format!("C02:{dir}:{}:{}:{}:w={}", c.class, c.field, c.alg.name(), c.base.wlist()),
            &format!(
                "library {} but RFC 8554 verification {} ({} of field {} of a {} signature of a {} key; library result: {})",
                if lib_accepts { "ACCEPTS" } else { "rejects" },
                if want { "ACCEPTS" } else { "rejects" },
                c.class,
                c.field,
                c.base.origin,
                model::params::levels_to_string(&c.base.levels),
                got.describe()
            ),
            replay(&c),
        );
    } else {
        r.count(if want { "agree_accept" } else { "agree_reject" }, 1);
    }
    // the other two entry points must decide the same
    if *nth % 6 == 0 || c.class == "valid" || c.class.starts_with("extend") || c.class.starts_with("level-count") {
        for e in [VerifyEntry::KeySignature, VerifyEntry::KeyRefSignature] {
            let g2 = libcall::verify(c.alg, c.msg, c.sig, c.pk, e);
            r.count("other_entry_calls", 1);
            if g2.is_ok() != want {
                r.violation(
                    &format!("C02:{}:{}:{}:{}:via={}", if g2.is_ok() { "lib_accepts_rfc_rejects" } else { "lib_rejects_rfc_accepts" }, c.class, c.field, c.alg.name(), e.name()),
                    &format!("{} returns {} where RFC 8554 verification {}", e.name(), g2.describe(), if want { "accepts" } else { "rejects" }),
                    replay(&c),
                );
            }
        }
    }
    // third opinion on the model itself (SHA-256/32, real heights only)
    if let Some(t) = tool {
        if c.alg == Alg::Sha256_256 && c.base.alg == Alg::Sha256_256 && c.base.levels.iter().all(|l| l.h >= 5) && *nth % 23 == 0 && c.pk.len() == 60 && c.sig.len() >= 4 {
            // (the tool reads key files of any length and uses their prefix: only exact-length keys are asked)
            if let Some(tv) = t.verify_bytes(&format!("{}", w.id), c.msg, c.sig, c.pk) {
                r.count("tool_opinions", 1);
                if tv != want {
                    r.inconclusive(&format!("ORACLE: hash-sigs tool {} a triple the model {} (class {}, field {})", if tv { "accepts" } else { "rejects" }, if want { "accepts" } else { "rejects" }, c.class, c.field));
                }
            }
        }
    }
    let lengths_ok = want || hss::parse_sig(&cfg, c.sig).map(|l| l.end == c.sig.len()).unwrap_or(false) && c.pk.len() == 28 + cfg.n();
    if lengths_ok {
        r.distinct(&format!("{}|{}|{}", cls, c.alg.name(), c.base.wlist()));
    }
    if r.samples.len() < 8 && *nth % 1999 == 7 {
        r.sample(replay(&c).with("rfc_accepts", J::Bool(want)).with("library", J::s(&got.describe())).with("signature", J::hexa(c.sig)));
    }
}

pub fn run(ctx: &Ctx) -> Report {
    let mut rng = ctx.rng("c02");
    let tool = RefTool::new(ctx, "c02");
    let mut cache = TreeCache::new();
    let pool = mutgen::build_pool(ctx, &mut rng, &mut cache, tool.as_ref());
    let pool_len = pool.len();
    let tool_ref = tool.as_ref();
    let seed = ctx.seed;
    let budget = ctx.size(40, 600);
    let idx: Vec<usize> = (0..pool.len()).collect();
    let pool_ref = &pool;
    let strict_seen: Mutex<Vec<String>> = Mutex::new(Vec::new());
    let mut rep = par_run(ctx, idx, |i, w| {
        let t: &Triple = &pool_ref[i];
        let mut rng = Rng::new(seed).fork(&format!("c02-{i}"));
        let smallest = t.sig.len() <= 450 || (!ctx.quick() && t.sig.len() <= 1400);
        let mut nth = 0u64;
        let opts = Opts { exhaustive_bytes: smallest, dense_truncation: false, all_header_bytes: false, budget };
        {
            let mut f = |c: Case| judge(w, c, tool_ref, &mut nth);
            mutgen::mutate(t, pool_ref, &mut rng, opts, &mut f);
        }
        // strict Appendix-B parameters: the recorded ls deviation, kept visible and separate
        let mut dev: Vec<(usize, u32)> = Vec::new();
        for l in &t.levels {
            if params::lib_ls_deviation(t.alg.n(), l.w).is_some() && !dev.contains(&(t.alg.n(), l.w)) {
                dev.push((t.alg.n(), l.w));
            }
        }
        if !dev.is_empty() && t.origin == "lib" {
            let strict = Cfg { alg: t.alg, ls: LsMode::Rfc, h2: true };
            w.report.eval();
            if !hss::verify(&strict, &t.msg, &t.sig, &t.pk) {
                for (n, wv) in &dev {
                    w.report.violation(
                        &format!("C02:ls:lib_accepts_rfc_rejects:n={n}:w={wv}"),
                        &format!("a signature the library produces and accepts for LM-OTS (n={n}, w={wv}) is INVALID under RFC 8554 Appendix-B parameters (ls {} vs {})", params::lib_ls_deviation(*n, *wv).unwrap(), params::ots_rfc(*n, *wv).ls),
                        J::obj().with("hash", J::s(t.alg.name())).with("levels", J::s(&model::params::levels_to_string(&t.levels))).with("message", J::hex(&t.msg)).with("signature", J::hexa(&t.sig)).with("public_key", J::hex(&t.pk)),
                    );
                }
            }
            // and the RFC-exact signature for the same key and message is rejected by the library
            if let Some(b) = hss::parse_blob(&strict, &hss::make_blob(t.counter, &t.levels, &t.seed)) {
                let ssig = hss::sign(&strict, &mut w.cache, &b, &t.msg, UpperC::ChildSeed, None);
                if hss::verify(&strict, &t.msg, &ssig, &t.pk) && !libcall::verify(t.alg, &t.msg, &ssig, &t.pk, VerifyEntry::Bytes).is_ok() {
                    for (n, wv) in &dev {
                        w.report.violation(
                            &format!("C02:ls:lib_rejects_rfc_accepts:n={n}:w={wv}"),
                            &format!("an RFC 8554-valid signature for LM-OTS (n={n}, w={wv}) is rejected by the library"),
                            J::obj().with("hash", J::s(t.alg.name())).with("levels", J::s(&model::params::levels_to_string(&t.levels))).with("message", J::hex(&t.msg)).with("signature", J::hexa(&ssig)).with("public_key", J::hex(&t.pk)),
                        );
                    }
                }
            }
            strict_seen.lock().unwrap().push(t.alg.name().to_string());
        }
    });
    rep.count("pool_triples", pool_len as i128);
    rep.rule = "pool of valid triples (library-signed, model-signed with random C on every level, hash-sigs-tool-signed) for 6 hashes x {single level W1..W8, H5, 2-, 3- and 8-level keys}; each is mutated structure-aware by the model's parser: every field class x {bit flip, 0x00, 0xff, +-1}, every type code 0..16 and wild integers in every integer field, q boundaries, type codes changed with lengths re-cut, level-count manipulations with and without well-formed filler blocks, chain truncation (child key as message, with and without L decremented), level swaps, splices with other signatures/keys, cross-hash, truncation/extension of signature and key, every byte position x 4 for the smallest signatures, random noise; \
                oracle = independent RFC 8554 verifier (hash-sigs tool as third opinion on a sample); distinct_nontrivial = distinct (mutation class, field, hash, W list) among cases whose lengths are well-formed or that are accepted"
        .into();
    if rep.counter("agree_accept") == 0 || rep.counter("agree_reject") == 0 {
        rep.inconclusive("did not observe both accepting and rejecting agreements");
    }
    if rep.counter("class:chain-truncated-L-1:accept") == 0 {
        rep.inconclusive("no accepting chain-truncation case was generated");
    }
    if tool.is_none() || rep.counter("tool_opinions") == 0 {
        rep.inconclusive("reference tool gave no third opinion");
    }
    shared::add_assumptions(&mut rep);
    rep
}
