//! C08: keys are derived and encoded exactly as the hash-sigs reference does.
//!
//! Refuted by: private blob / public key from `keygen` differing from the model's; for
//! SHA-256/32 with real heights, from the files the reference tool writes for the same seed;
//! embedded child public keys in released signatures differing from the model's derivation.

use model::hss;
use model::{Alg, Level, Report, J};

use crate::common::{lcfg, levels, par_run, Ctx, RefTool, Worker, WS};
use crate::libcall::{self, Cb, Out};
use crate::props::shared::{self, random_levels, seed_classes};

struct Case {
    alg: Alg,
    levels: Vec<Level>,
    seed_class: String,
    seed: Vec<u8>,
    /// compare with the reference tool (SHA-256/32, real heights only)
    tool: bool,
    /// sign at these counters and compare the embedded child public keys
    child_counters: Vec<u64>,
}

fn key(c: &Case, what: &str) -> String {
    format!("C08:{}:{}:{}:seed={}", what, c.alg.name(), model::params::levels_to_string(&c.levels), c.seed_class_kind())
}

impl Case {
    fn seed_class_kind(&self) -> &str {
        self.seed_class.split('#').next().unwrap_or("")
    }
    fn replay(&self) -> J {
        shared::replay_doc("C08", self.alg, &self.levels, &self.seed, 0, &[])
    }
}

fn run_case(c: Case, w: &mut Worker, tool: Option<&RefTool>) {
    let cfg = lcfg(c.alg);
    let r = &mut w.report;
    r.eval();
    let kp = match libcall::keygen(c.alg, &c.levels, &c.seed, None) {
        Out::Ok(k) => k,
        other => {
            r.violation(&key(&c, "keygen_failed"), &format!("keygen returned {} for a valid parameter list", other.describe()), c.replay());
            return;
        }
    };
    r.count("keygens", 1);
    let want_sk = hss::make_blob(0, &c.levels, &c.seed);
    if kp.sk != want_sk {
        r.violation(
            &key(&c, "private_blob"),
            &format!("private key blob {} != counter||params||seed {}", model::json::hex(&kp.sk), model::json::hex(&want_sk)),
            c.replay(),
        );
    }
    let want_vk = hss::public_key(&cfg, &mut w.cache, &c.levels, &c.seed);
    if kp.vk != want_vk {
        let what = if kp.vk.len() != want_vk.len() {
            "length"
        } else if kp.vk[..4] != want_vk[..4] {
            "level count"
        } else if kp.vk[4..12] != want_vk[4..12] {
            "type codes"
        } else if kp.vk[12..28] != want_vk[12..28] {
            "tree identifier I"
        } else {
            "root"
        };
        r.violation(
            &key(&c, "public_key"),
            &format!("public key differs from the model in {what}: lib {} model {}", model::json::hex(&kp.vk), model::json::hex(&want_vk)),
            c.replay(),
        );
    }
    // the derivation must not depend on what the caller's aux buffer held before: a recycled buffer
    // whose marker byte was reset to 0 ("no aux data") with another key's bytes behind it, and a
    // buffer of junk that claims to be in use (its MAC cannot match, so it has to be ignored)
    if c.levels[0].h <= 10 {
        for (class, first) in [("recycled_marker0", 0u8), ("junk_in_use", 0xa5u8)] {
            let mut bytes: Vec<u8> = (0..2048usize).map(|i| (i as u8).wrapping_mul(167) | 1).collect();
            bytes[0] = first;
            let mut aux = libcall::AuxBuf::new(bytes);
            match libcall::keygen(c.alg, &c.levels, &c.seed, Some(&mut aux)) {
                Out::Ok(k2) => {
                    r.count("keygens_into_dirty_aux", 1);
                    if k2.vk != want_vk || k2.sk != want_sk {
                        r.violation(
                            &key(&c, &format!("dirty_aux:{class}")),
                            &format!("keygen into a dirty aux buffer ({class}) deviates from the derivation: public key {} model {}", model::json::hex(&k2.vk), model::json::hex(&want_vk)),
                            c.replay(),
                        );
                    }
                }
                other => {
                    r.violation(&key(&c, &format!("dirty_aux_keygen_failed:{class}")), &format!("keygen into a dirty aux buffer ({class}) returned {}", other.describe()), c.replay());
                }
            }
        }
    }
    r.distinct(&format!("{}|{}|{}", c.alg.name(), model::params::levels_to_string(&c.levels), c.seed_class));
    if r.samples.len() < 6 {
        r.sample(
            J::obj()
                .with("hash", J::s(c.alg.name()))
                .with("levels", J::s(&model::params::levels_to_string(&c.levels)))
                .with("seed_class", J::s(&c.seed_class))
                .with("private_key", J::hex(&kp.sk))
                .with("public_key", J::hex(&kp.vk))
                .with("model_agrees", J::Bool(kp.vk == want_vk && kp.sk == want_sk)),
        );
    }

    if c.tool {
        if let Some(t) = tool {
            let name = format!("k{}", w.id);
            match t.genkey(&name, &c.levels, &c.seed, 0) {
                Some((prv, pubk, _)) => {
                    r.count("tool_keygens", 1);
                    if prv != kp.sk {
                        r.violation(&key(&c, "tool_private_blob"), "private key blob differs from the hash-sigs tool's .prv", c.replay());
                    }
                    if pubk != kp.vk {
                        r.violation(&key(&c, "tool_public_key"), "public key differs from the hash-sigs tool's .pub", c.replay());
                    }
                }
                None => r.inconclusive("reference tool genkey failed"),
            }
        }
    }

    // child-tree derivation, visible through the embedded public keys of released signatures
    for &counter in &c.child_counters {
        // the key file as the format defines it (not the library's own bytes, which were judged above)
        let blob = hss::make_blob(counter, &c.levels, &c.seed);
        let rec = libcall::sign_bytes(c.alg, &blob, b"c08", Cb::Accept, None);
        let sig = match rec.result {
            Out::Ok(s) => s,
            other => {
                // C01/C11 own this; here it only means the child keys stay unobserved
                r.count("child_sign_unavailable", 1);
                r.note(&format!("sign unavailable for child-key observation: {}", other.describe()));
                continue;
            }
        };
        r.count("child_key_signatures", 1);
        let b = match hss::parse_blob(&cfg, &blob) {
            Some(b) => b,
            None => continue,
        };
        let e = hss::expand(&cfg, &mut w.cache, &b);
        match hss::parse_sig(&cfg, &sig) {
            Some(lay) if lay.pubs.len() + 1 == c.levels.len() => {
                for (i, (po, pl)) in lay.pubs.iter().enumerate() {
                    r.count("child_keys_compared", 1);
                    if sig[*po..po + pl] != e.pubs[i + 1][..] {
                        r.violation(
                            &key(&c, &format!("child_public_key_level{}", i + 1)),
                            &format!("embedded public key of level {} at counter {counter} differs from the hash-sigs child derivation", i + 1),
                            c.replay().with("counter", J::Int(counter as i128)),
                        );
                    }
                }
            }
            _ => r.violation(&key(&c, "child_sig_shape"), "released signature cannot be cut into its levels", c.replay()),
        }
    }
}

/// The derivation functions themselves (through the hook re-exports) at parent leaf indices no
/// end-to-end run can reach: child (seed, I), per-leaf randomizer and the chain start values for
/// q up to 2^32-1 against the model's hash-sigs derivation.
#[cfg(feature = "hooks")]
fn derivation_sweep(ctx: &Ctx) -> Report {
    use hbs_lms::verif_hooks as vh;
    let mut r = Report::new();
    let mut rng = ctx.rng("c08-derive");
    for alg in model::ALL_ALGS {
        let cfg = lcfg(alg);
        let n = alg.n();
        for rep in 0..ctx.size(2, 10) {
            let parent = hss::TreeId { seed: rng.bytes(n), i: rng.bytes(16).try_into().unwrap() };
            let mut qs: Vec<u32> = vec![0, 1, 255, 256, 257, 65535, 65536, 65537, (1 << 20) - 1, 1 << 20, 1 << 24, (1 << 25) - 1, 1 << 25, 0x0100_0100, 1 << 31, u32::MAX];
            for _ in 0..ctx.size(40, 400) {
                qs.push(rng.next() as u32 >> rng.below(32));
            }
            for q in qs {
                let res = crate::with_hash!(alg, H, {
                    libcall::guard(|| {
                        let p = vh::SeedAndLmsTreeIdentifier::<H>::new(&libcall::seed_of::<H>(&parent.seed), &parent.i);
                        let child = vh::generate_child_seed_and_lms_tree_identifier::<H>(&p, &q);
                        let c = vh::generate_signature_randomizer::<H>(&p, &q);
                        (child.seed.as_slice().to_vec(), child.lms_tree_identifier.to_vec(), c.as_slice().to_vec())
                    })
                });
                r.eval();
                let replay = || J::obj().with("property", J::s("C08")).with("hash", J::s(alg.name())).with("parent_seed", J::hex(&parent.seed)).with("parent_I", J::hex(&parent.i)).with("q", J::Int(q as i128));
                match res {
                    Err(p) => r.violation(&format!("C08:derive:panic:{}", p.site()), &format!("derivation panicked for parent leaf {q}: {}", p.message), replay()),
                    Ok((seed, i, c)) => {
                        let want = hss::child_tree_id(&cfg, &parent, q);
                        if seed != want.seed || i != want.i.to_vec() {
                            r.violation(
                                &format!("C08:derive:child_tree:{}:q{}", alg.name(), if q < 65536 { "<2^16" } else { ">=2^16" }),
                                &format!("child tree below parent leaf {q}: library (seed {}, I {}), hash-sigs derivation (seed {}, I {})", model::json::hex(&seed), model::json::hex(&i), model::json::hex(&want.seed), model::json::hex(&want.i)),
                                replay(),
                            );
                        }
                        if c != hss::randomizer(&cfg, &parent, q) {
                            r.violation(&format!("C08:derive:randomizer:{}:q{}", alg.name(), if q < 65536 { "<2^16" } else { ">=2^16" }), &format!("per-leaf randomizer for leaf {q} differs from the hash-sigs derivation"), replay());
                        }
                        r.count("derivations_compared", 1);
                    }
                }
                r.distinct(&format!("derive|{}|{}|{}", alg.name(), rep, q));
            }
            // chain start values of one-time keys at far-away leaves, every W
            for wv in WS {
                for q in [0u32, 65536 + rep as u32, (1 << 25) - 1] {
                    let res = crate::with_hash!(alg, H, {
                        libcall::guard(|| {
                            let param = hbs_lms::HssParameter::<H>::new(hbs_lms::LmotsAlgorithm::from(model::params::code_of_w(wv)), hbs_lms::LmsAlgorithm::from(model::params::lms_code_of_height(5)));
                            let k = vh::generate_lmots_private_key::<H>(parent.i, q.to_be_bytes(), libcall::seed_of::<H>(&parent.seed), *param.get_lmots_parameter());
                            k.key.as_slice().iter().map(|x| x.as_slice().to_vec()).collect::<Vec<_>>()
                        })
                    });
                    r.eval();
                    if let Ok(xs) = res {
                        let p = model::params::ots_rfc(n, wv).p;
                        let bad = xs.len() != p || (0..p).any(|i| xs[i] != model::lmots::ots_secret(&cfg, &parent.i, q, i as u16, &parent.seed));
                        if bad {
                            r.violation(&format!("C08:derive:chain_starts:{}:w={wv}", alg.name()), &format!("one-time key of leaf {q}: chain start values differ from x[i] = H(I||q||i||0xff||seed)"), J::obj().with("hash", J::s(alg.name())).with("q", J::Int(q as i128)).with("w", J::Int(wv as i128)));
                        }
                        r.count("one_time_keys_compared", 1);
                    }
                }
            }
        }
    }
    r
}

#[cfg(not(feature = "hooks"))]
fn derivation_sweep(_ctx: &Ctx) -> Report {
    Report::new()
}

pub fn run(ctx: &Ctx) -> Report {
    let mut rng = ctx.rng("c08");
    let mut cases: Vec<Case> = Vec::new();
    let n_random = ctx.size(3, 40);
    for alg in model::ALL_ALGS {
        // every W at H2 and H5, single level, all seed classes
        for h in [2u32, 5] {
            for &w in &WS {
                for (class, seed) in seed_classes(&mut rng, alg.n(), n_random) {
                    cases.push(Case {
                        alg,
                        levels: vec![Level { h, w }],
                        seed_class: class,
                        seed,
                        tool: alg == Alg::Sha256_256 && h == 5,
                        child_counters: vec![],
                    });
                }
            }
        }
        // every list length 1..8 with mixed parameters, small trees so that signing is possible
        for len in 1..=8usize {
            for rep in 0..ctx.size(2, 8) {
                let lv = random_levels(&mut rng, alg, len, &[2, 2, 5], if ctx.quick() { 3.0e6 } else { 2.0e7 });
                let total = hss::total_leaves(&lv) as u64;
                let mut counters = vec![0u64, total - 1];
                // first leaf of the second bottom tree, and a random one
                if lv.len() > 1 {
                    counters.push(1u64 << lv[lv.len() - 1].h);
                    counters.push(rng.below(total));
                }
                cases.push(Case {
                    alg,
                    levels: lv.clone(),
                    seed_class: format!("random#l{len}r{rep}"),
                    seed: rng.bytes(alg.n()),
                    tool: alg == Alg::Sha256_256 && lv.iter().all(|l| l.h >= 5),
                    child_counters: counters,
                });
            }
        }
        // H10 top trees (top tree decides the cost of keygen)
        let h10: Vec<Vec<(u32, u32)>> = if ctx.quick() {
            vec![vec![(10, 8)], vec![(10, 4), (5, 8)]]
        } else {
            vec![vec![(10, 8)], vec![(10, 4), (5, 8)], vec![(10, 2)], vec![(10, 1)], vec![(10, 8), (10, 8)], vec![(10, 4), (5, 2), (5, 8)]]
        };
        for spec in h10 {
            let lv = levels(&spec);
            cases.push(Case {
                alg,
                levels: lv.clone(),
                seed_class: "random#h10".into(),
                seed: rng.bytes(alg.n()),
                tool: alg == Alg::Sha256_256,
                // (parent leaves beyond the size of the tree below: 1029 -> top leaf 32 for H10 over H5)
                child_counters: if lv.len() > 1 && lv.iter().skip(1).all(|l| l.h <= 5) { vec![0, 33, 1029, (hss::total_leaves(&lv) - 1) as u64] } else { vec![] },
            });
        }
    }
    // real-height 8-level lists against the tool, and H15 top trees
    {
        let alg = Alg::Sha256_256;
        for rep in 0..ctx.size(1, 4) {
            let lv: Vec<Level> = (0..8).map(|_| Level { h: 5, w: *rng.pick(&[4u32, 8]) }).collect();
            cases.push(Case {
                alg,
                levels: lv,
                seed_class: format!("random#8lv{rep}"),
                seed: rng.bytes(32),
                tool: true,
                child_counters: vec![0, (1u64 << 35) + 77],
            });
        }
        let mut h15: Vec<Vec<(u32, u32)>> = vec![];
        if !ctx.quick() {
            h15.push(vec![(15, 8)]);
            h15.push(vec![(15, 4), (5, 8)]);
            h15.push(vec![(15, 2)]);
        }
        for spec in h15 {
            cases.push(Case {
                alg,
                levels: levels(&spec),
                seed_class: "random#h15".into(),
                seed: rng.bytes(32),
                tool: true,
                child_counters: vec![],
            });
        }
    }
    // in a build with reduced limits (stage `constrained`) only the lists it supports are generated
    cases.retain(|c| crate::common::in_build_limits(&c.levels));
    // longest first so that the tail of the run is short
    cases.sort_by(|a, b| {
        shared::tree_cost(b.alg, &b.levels[0]).partial_cmp(&shared::tree_cost(a.alg, &a.levels[0])).unwrap()
    });
    let tool = RefTool::new(ctx, "c08");
    let tool_ref = tool.as_ref();
    let mut rep = par_run(ctx, cases, |c, w| run_case(c, w, tool_ref));
    rep.merge(derivation_sweep(ctx));
    rep.rule = "cases = (hash, parameter list, seed) with seeds from classes {zero, ones, counting, single bit, random}; \
                distinct_nontrivial counts distinct (hash, parameter list, seed class incl. index); every case compares the \
                private blob and public key with the model, SHA-256/32 real-height cases also with the files written by the \
                hash-sigs tool, multi-level cases also the embedded child public keys at several counters; \
                the derivation functions themselves (hook re-exports) are compared with the model at parent leaf indices 0..2^32-1 (boundaries 2^8, 2^16, 2^20, 2^24, 2^25 and random): child seed / tree identifier, per-leaf randomizer, chain start values for every W"
        .into();
    if tool.is_none() {
        rep.inconclusive("reference tool not available");
    }
    if rep.counter("tool_keygens") == 0 {
        rep.inconclusive("no reference-tool comparison was made");
    }
    if rep.counter("child_keys_compared") == 0 && crate::common::build_limits().map(|(n, _, _)| n > 1).unwrap_or(true) {
        rep.inconclusive("no embedded child public key was observed");
    }
    shared::add_assumptions(&mut rep);
    rep
}
