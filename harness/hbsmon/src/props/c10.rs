//! C10: auxiliary data is a transparent, authenticated cache and nothing more.
//!
//! Metamorphic oracle: whatever the aux buffer contains, keygen / sign must return exactly what
//! they return without aux data.  Layout oracle: a fresh buffer is shrunk to the model's length
//! and holds the model's (= hash-sigs') layout; bytes beyond the used length stay untouched.

use model::hss;
use model::{Alg, Level, Report, Rng, J};

use crate::common::{lcfg, levels, par_run, Ctx, RefTool, Worker};
use crate::libcall::{self, AuxBuf, Cb, Out, SignEntry};
use crate::props::shared;

struct Key {
    alg: Alg,
    levels: Vec<Level>,
    seed: Vec<u8>,
    /// flip every single bit of the valid buffer (else: every bit of level word and MAC + sample)
    all_bits: bool,
    tool: bool,
    /// expensive key (tall top tree): boundary lengths and a small sample only
    light: bool,
    /// this task handles the work items with index % parts == part
    part: usize,
    parts: usize,
}

/// aux class: a buffer that key generation filled for the SAME seed under another parameter list
const SAME_SEED: &str = "same-seed-other-parameter-list";

struct Baseline {
    sk: Vec<u8>,
    vk: Vec<u8>,
    /// (counter, message, signature, successor)
    signs: Vec<(u64, Vec<u8>, Vec<u8>, Vec<u8>)>,
}

struct Env<'a> {
    k: &'a Key,
    base: &'a Baseline,
    lvs: String,
}

fn replay(e: &Env, class: &str, detail: &str, buf: &[u8]) -> J {
    J::obj()
        .with("property", J::s("C10"))
        .with("hash", J::s(e.k.alg.name()))
        .with("levels", J::s(&e.lvs))
        .with("seed", J::hex(&e.k.seed))
        .with("aux_class", J::s(class))
        .with("detail", J::s(detail))
        .with("aux_len", J::u(buf.len()))
        .with("aux", J::hexa(buf))
}

/// keygen with this buffer must equal the aux-less keygen
fn check_keygen(w: &mut Worker, e: &Env, class: &str, detail: &str, buf: Vec<u8>) -> AuxBuf {
    let mut aux = AuxBuf::new(buf.clone());
    let out = libcall::keygen(e.k.alg, &e.k.levels, &e.k.seed, Some(&mut aux));
    let r = &mut w.report;
    r.eval();
    r.count("keygen_with_aux", 1);
    // the same-seed class is keyed without hash and shape: it is one recorded finding (the aux MAC
    // is keyed by the seed only, in hash-sigs as well), not one per key
    let key = |what: &str| if class == SAME_SEED { format!("C10:keygen:{what}:{class}") } else { format!("C10:keygen:{what}:{}:{}:{class}", e.k.alg.name(), e.lvs) };
    match &out {
        Out::Ok(kp) => {
            if kp.vk != e.base.vk || kp.sk != e.base.sk {
                r.violation(&key("different_keypair"), &format!("keygen with a {class} aux buffer ({detail}) returns a different key pair than without aux data"), replay(e, class, detail, &buf));
            }
        }
        other => r.violation(&key(&format!("failed_{}", other.kind())), &format!("keygen with a {class} aux buffer ({detail}) returns {} although it succeeds without aux data", other.describe()), replay(e, class, detail, &buf)),
    }
    // bytes beyond the used length must be untouched
    if aux.used <= buf.len() && aux.buf[aux.used..] != buf[aux.used..] {
        r.violation(&key("wrote_beyond_used_length"), &format!("keygen modified aux bytes beyond the {} bytes it reports as used", aux.used), replay(e, class, detail, &buf));
    }
    r.distinct(&format!("{}|kg|{}|{}", e.k.alg.name(), class, detail));
    aux
}

/// sign with this buffer must equal the aux-less sign at every baseline counter
fn check_sign(w: &mut Worker, e: &Env, class: &str, detail: &str, buf: &[u8], entry: SignEntry) {
    for (counter, msg, want_sig, want_next) in &e.base.signs {
        let blob = hss::make_blob(*counter, &e.k.levels, &e.k.seed);
        let mut aux = AuxBuf::new(buf.to_vec());
        let rec = match entry {
            SignEntry::Bytes => libcall::sign_bytes(e.k.alg, &blob, msg, Cb::Accept, Some(&mut aux)),
            en => libcall::sign_key(e.k.alg, &blob, msg, en, Some(&mut aux)),
        };
        let r = &mut w.report;
        r.eval();
        r.count("sign_with_aux", 1);
        let key = |what: &str| if class == SAME_SEED { format!("C10:sign:{what}:{class}") } else { format!("C10:sign:{what}:{}:{}:{class}", e.k.alg.name(), e.lvs) };
        let next = match entry {
            SignEntry::Bytes => rec.cb_args.first().cloned(),
            _ => rec.key_after.clone(),
        };
        match &rec.result {
            Out::Ok(sig) => {
                if sig != want_sig {
                    let valid = libcall::verify(e.k.alg, msg, sig, &e.base.vk, libcall::VerifyEntry::Bytes).is_ok();
                    r.violation(
                        &key(if valid { "different_signature" } else { "invalid_signature" }),
                        &format!(
                            "sign at counter {counter} with a {class} aux buffer ({detail}) returns a different signature than without aux data ({}; first difference: {})",
                            if valid { "still valid" } else { "does NOT verify" },
                            shared::first_difference(&lcfg(e.k.alg), want_sig, sig)
                        ),
                        replay(e, class, detail, buf).with("counter", J::Int(*counter as i128)),
                    );
                }
                if next.as_ref() != Some(want_next) {
                    r.violation(&key("different_successor"), &format!("successor key differs from the aux-less one at counter {counter} ({class}, {detail})"), replay(e, class, detail, buf));
                }
            }
            other => r.violation(
                &key(&format!("failed_{}", other.kind())),
                &format!("sign at counter {counter} with a {class} aux buffer ({detail}) returns {} although it succeeds without aux data (callback invocations: {})", other.describe(), rec.cb_args.len()),
                replay(e, class, detail, buf).with("counter", J::Int(*counter as i128)),
            ),
        }
        if aux.used <= buf.len() && aux.buf[aux.used..] != buf[aux.used..] {
            r.violation(&key("wrote_beyond_used_length"), "sign modified aux bytes beyond the length it reports as used", replay(e, class, detail, buf));
        }
        r.distinct(&format!("{}|sg|{}|{}", e.k.alg.name(), class, detail));
    }
}

fn run_key(k: Key, w: &mut Worker, ctx: &Ctx, tool: Option<&RefTool>) {
    let mut item = 0usize;
    let mut mine = |item: &mut usize| -> bool {
        *item += 1;
        (*item - 1) % k.parts == k.part
    };
    let cfg = lcfg(k.alg);
    let n = k.alg.n();
    let lvs = model::params::levels_to_string(&k.levels);
    let mut rng = Rng::new(ctx.seed).fork(&format!("c10-{}-{}", k.alg.name(), lvs));
    // baseline without aux
    let kp = match libcall::keygen(k.alg, &k.levels, &k.seed, None) {
        Out::Ok(kp) => kp,
        Out::Err if std::env::var("VERIF_BUILD_CONFIG").is_ok() => {
            // a build with reduced limits refuses the keys beyond them (that is C14's business)
            w.report.count("keys_outside_build_limits", 1);
            return;
        }
        other => {
            w.report.violation(&format!("C10:baseline_keygen:{}:{}", k.alg.name(), lvs), &format!("keygen without aux failed: {}", other.describe()), J::Null);
            return;
        }
    };
    let total = hss::total_leaves(&k.levels) as u64;
    let mut counters = vec![0u64];
    if k.levels.len() > 1 {
        counters.push(1u64 << k.levels[k.levels.len() - 1].h);
    }
    counters.push(total - 1);
    counters.dedup();
    if k.light {
        counters = vec![3];
    }
    let mut signs = Vec::new();
    for c in counters {
        let blob = hss::make_blob(c, &k.levels, &k.seed);
        let msg = rng.bytes(24);
        let rec = libcall::sign_bytes(k.alg, &blob, &msg, Cb::Accept, None);
        match (rec.result, rec.cb_args.first()) {
            (Out::Ok(sig), Some(next)) => signs.push((c, msg, sig, next.clone())),
            _ => {
                w.report.inconclusive("aux-less baseline sign failed");
                return;
            }
        }
    }
    let base = Baseline { sk: kp.sk.clone(), vk: kp.vk.clone(), signs };
    let e = Env { k: &k, base: &base, lvs: lvs.clone() };

    // the model's expectation for a generous fresh buffer
    let tid = hss::root_tree_id(&cfg, &k.seed);
    let o = model::params::ots(&cfg, model::params::code_of_w(k.levels[0].w)).unwrap();
    let top = w.cache.get(&cfg, &o, k.levels[0].h, &tid.i, &tid.seed);
    let big = 4 + n + (n << (k.levels[0].h + 1)) + 64;
    let full = model::aux::expected_aux(&cfg, big, &top, &k.seed).expect("model aux");
    let used = full.len();

    // 1. fresh zeroed buffers of every length 0..used+40 (and a few large ones)
    let mut lens: Vec<usize> = (0..=used + 40).collect();
    lens.extend([used + 1000, 3 * used]);
    if (ctx.quick() && used > 1200) || k.light {
        // stride the interior for big buffers, keep every length around each level boundary
        let mut keep: Vec<usize> = (0..=4 + n + 8).collect();
        let mut l = 0;
        while l <= used + 40 {
            keep.push(l);
            l += if k.light { used / 6 + 1 } else { 37 };
        }
        for lev in 1..=k.levels[0].h {
            let (_, u) = model::aux::optimal_levels(&cfg, 4 + n + (n << lev), k.levels[0].h);
            for d in 0..(if k.light { 3 } else { 6 }) {
                keep.push((4 + n + (n << lev)).saturating_sub(if k.light { 1 } else { 3 }) + d);
                keep.push(u.saturating_sub(if k.light { 1 } else { 3 }) + d);
            }
        }
        keep.extend([used - 1, used, used + 1, used + 40, used + 1000, 3 * used]);
        keep.sort_unstable();
        keep.dedup();
        lens = keep;
    }
    for len in lens {
        if !mine(&mut item) {
            continue;
        }
        let aux = check_keygen(w, &e, "fresh-zeroed", &format!("len={}", len), vec![0u8; len]);
        // layout
        let want = model::aux::expected_aux(&cfg, len, &top, &k.seed);
        let r = &mut w.report;
        let key = |what: &str| format!("C10:layout:{what}:{}:{}", k.alg.name(), lvs);
        match want {
            Some(v) => {
                if aux.used != v.len() {
                    r.violation(&key("used_length"), &format!("fresh {len}-byte buffer shrunk to {} bytes, hash-sigs layout uses {}", aux.used, v.len()), replay(&e, "fresh-zeroed", &format!("len={len}"), &[]));
                } else if aux.used_part() != &v[..] {
                    let pos = aux.used_part().iter().zip(v.iter()).position(|(a, b)| a != b).unwrap_or(0);
                    let part = if pos < 4 { "level word" } else if pos >= v.len() - n { "MAC" } else { "cached nodes" };
                    r.violation(&key(&format!("contents_{}", part.replace(' ', "_"))), &format!("aux data written into a fresh {len}-byte buffer differs from the hash-sigs layout in the {part} (byte {pos})"), replay(&e, "fresh-zeroed", &format!("len={len}"), aux.used_part()));
                } else {
                    r.count("layout_matches", 1);
                }
            }
            None => {
                if len > 0 && (aux.used != 1 || aux.buf[0] != 0) {
                    r.violation(&key("too_small_buffer"), &format!("a {len}-byte buffer cannot hold any level: expected it to be marked unused (1 byte, 0x00), got {} bytes, first byte {:#04x}", aux.used, aux.buf[0]), replay(&e, "fresh-zeroed", &format!("len={len}"), aux.used_part()));
                }
            }
        }
        // signing with what keygen left behind
        if len % 5 == 0 || len >= used {
            check_sign(w, &e, "as-left-by-keygen", &format!("len={}", len), aux.used_part(), SignEntry::Bytes);
        }
    }
    // reference tool.  hash-sigs never caches the leaf level h0 of the top tree, the library does when
    // the buffer is large enough (both are the same self-describing layout), so byte identity is
    // demanded for buffer sizes where the two selections coincide, and interoperability beyond.
    if k.tool && k.part == 0 {
        if let Some(t) = tool {
            let h0 = k.levels[0].h;
            let below_top = 4 + n + (n << h0) - 1; // largest buffer the leaf level does not fit into
            let name = format!("a{}", w.id);
            let mut all_lower = 4 + n;
            let mut l = h0 as i64 - 2;
            while l >= 1 {
                all_lower += n << l;
                l -= 2;
            }
            // sizes at which greedy-from-the-top (library) and greedy-from-the-bottom (hash-sigs) agree
            for len in [below_top, all_lower, 4 + n + (n << 1), 4 + n + 1] {
                if let Some((_, _, taux)) = t.genkey(&name, &k.levels, &k.seed, len) {
                    w.report.count("tool_aux_files", 1);
                    let want = model::aux::expected_aux(&cfg, len, &top, &k.seed).unwrap_or_default();
                    let mut a = AuxBuf::new(vec![0u8; len]);
                    let _ = libcall::keygen(k.alg, &k.levels, &k.seed, Some(&mut a));
                    let libaux: &[u8] = if want.is_empty() { &[] } else { a.used_part() };
                    let taux_cmp: &[u8] = if taux.len() == 1 && taux[0] == 0 { &[] } else { &taux };
                    if taux_cmp != libaux {
                        w.report.violation(&format!("C10:layout:tool_aux_file:{}", lvs), &format!("aux data for a {len}-byte buffer differs from the hash-sigs tool's .aux file ({} vs {} bytes)", libaux.len(), taux.len()), replay(&e, "fresh-zeroed", &format!("len={len}"), libaux));
                    }
                    if taux_cmp != &want[..] {
                        w.report.inconclusive("ORACLE: model aux != tool aux where the level selections should coincide");
                    }
                    // the tool's file is a legitimate cache for the library: results unchanged
                    if !taux_cmp.is_empty() {
                        check_sign(w, &e, "written-by-hash-sigs-tool", &format!("len={len}"), &taux, SignEntry::Bytes);
                        check_keygen(w, &e, "written-by-hash-sigs-tool", &format!("len={len}"), taux.clone());
                    }
                }
            }
            // the library's largest buffer (with the leaf level) is usable by the tool
            if t.genkey(&name, &k.levels, &k.seed, 0).is_some() {
                t.write(&format!("{name}.aux"), &full);
                let msg = b"interop with library-written aux";
                let file = format!("auxmsg{}", w.id);
                t.write(&file, msg);
                match t.sign(&name, &file) {
                    Some(tsig) => {
                        w.report.count("tool_signed_with_library_aux", 1);
                        if !libcall::verify(k.alg, msg, &tsig, &base.vk, libcall::VerifyEntry::Bytes).is_ok() {
                            w.report.violation(&format!("C10:interop:tool_with_library_aux:{}", lvs), "the hash-sigs tool, given the aux file the library wrote, produced a signature that does not verify", replay(&e, "valid", "library-written", &full));
                        }
                    }
                    None => w.report.inconclusive("reference tool could not sign with the library-written aux file"),
                }
            }
        }
    }

    // 2. truncated valid buffer, every length
    let stride = if k.light { used / 12 + 1 } else if ctx.quick() && used > 1200 { 29 } else { 1 };
    let mut cut = 0;
    while cut < used {
        if !mine(&mut item) {
            cut += if (cut < 4 + n + 4 && !k.light) || cut < 6 || cut + 3 >= used { 1 } else { stride };
            continue;
        }
        let b = full[..cut].to_vec();
        check_keygen(w, &e, "truncated-valid", &format!("cut={cut}"), b.clone());
        check_sign(w, &e, "truncated-valid", &format!("cut={cut}"), &b, if cut % 2 == 0 { SignEntry::Bytes } else { SignEntry::TrySignAux });
        cut += if (cut < 4 + n + 4 && !k.light) || cut < 6 || cut + 3 >= used { 1 } else { stride };
    }
    // 3. valid buffer, exactly and padded
    if mine(&mut item) {
    check_keygen(w, &e, "valid", "exact", full.clone());
    check_sign(w, &e, "valid", "exact", &full, SignEntry::Bytes);
    check_sign(w, &e, "valid", "exact", &full, SignEntry::TrySignAux);
    for pad in [1usize, n - 1, n, n + 1, 100] {
        let mut b = full.clone();
        b.extend(std::iter::repeat(0u8).take(pad));
        check_keygen(w, &e, "valid-padded-zero", &format!("pad={pad}"), b.clone());
        check_sign(w, &e, "valid-padded-zero", &format!("pad={pad}"), &b, SignEntry::Bytes);
        let mut b = full.clone();
        b.extend(rng.bytes(pad));
        check_keygen(w, &e, "valid-padded-noise", &format!("pad={pad}"), b.clone());
        check_sign(w, &e, "valid-padded-noise", &format!("pad={pad}"), &b, SignEntry::Bytes);
    }
    }
    // 4. single-bit corruptions
    let bits: Vec<usize> = if k.all_bits {
        (0..used * 8).collect()
    } else {
        let mut v: Vec<usize> = (0..32).collect();
        if k.light {
            for _ in 0..12 {
                v.push(rng.range((used - n) * 8, used * 8));
                v.push(rng.range(32, (used - n) * 8));
            }
        } else {
            v.extend((used - n) * 8..used * 8);
            for _ in 0..ctx.size(150, 1500) {
                v.push(rng.range(32, (used - n) * 8));
            }
        }
        v
    };
    for bit in bits {
        if !mine(&mut item) {
            continue;
        }
        let mut b = full.clone();
        b[bit / 8] ^= 1 << (bit % 8);
        let region = if bit < 32 { "level-word" } else if bit >= (used - n) * 8 { "mac" } else { "node" };
        let detail = format!("{region}:bit={bit}");
        if bit % 2 == 0 {
            check_keygen(w, &e, "bitflip", &detail, b.clone());
        }
        check_sign(w, &e, "bitflip", &detail, &b, SignEntry::Bytes);
        w.report.count("single_bit_corruptions", 1);
    }
    // 5. level word replaced
    let word = u32::from_be_bytes(full[..4].try_into().unwrap());
    let mut words: Vec<u32> = vec![0, 1, 0xffff_ffff, 0x8000_0000, 0x7fff_ffff, word | (1 << (k.levels[0].h + 1)), word | (1 << 25), word | (1 << 26), word | (1 << 30), 0x8000_0000 | (1 << 25), 0x0400_0000, 0x8400_0000];
    if !k.light {
        for b in 0..32 {
            words.push(word ^ (1 << b));
        }
    }
    for wd in words {
        if !mine(&mut item) {
            continue;
        }
        let mut b = full.clone();
        b[..4].copy_from_slice(&wd.to_be_bytes());
        let detail = format!("word={wd:#010x}");
        check_keygen(w, &e, "level-word", &detail, b.clone());
        check_sign(w, &e, "level-word", &detail, &b, SignEntry::Bytes);
        // and on a short buffer, so that the lengths the word implies do not fit
        let short = b[..(4 + n + 7).min(b.len())].to_vec();
        check_keygen(w, &e, "level-word-short", &detail, short.clone());
        check_sign(w, &e, "level-word-short", &detail, &short, SignEntry::Bytes);
    }
    // 6. garbage: "uninitialised" memory with zero and non-zero first byte
    for rep in 0..(if k.light { 2 } else { ctx.size(6, 40) }) {
        for len in [1usize, 3, 4, 5, 4 + n, 4 + n + 1, used / 2, used - 1, used, used + 1, used + 33, 2 * used] {
            if k.light && ![4usize, used / 2, used, used + 33].contains(&len) {
                continue;
            }
            if !mine(&mut item) {
                let _ = rng.bytes(2 * len + 8); // keep the stream aligned across parts
                continue;
            }
            let mut g = rng.bytes(len);
            g[0] = 0;
            if rep % 2 == 1 {
                // mostly zero with a few stray bytes (a re-used, partly cleared buffer)
                for x in g.iter_mut() {
                    if rng.below(10) != 0 {
                        *x = 0;
                    }
                }
            }
            let aux = check_keygen(w, &e, "garbage-first-byte-zero", &format!("len={len}"), g.clone());
            check_sign(w, &e, "garbage-first-byte-zero", &format!("len={len}"), &g, SignEntry::Bytes);
            check_sign(w, &e, "garbage-then-keygen", &format!("len={len}"), aux.used_part(), SignEntry::Bytes);
            let mut g2 = rng.bytes(len);
            g2[0] = 0x80 | (rng.next() as u8) | 1;
            check_keygen(w, &e, "garbage-first-byte-nonzero", &format!("len={len}"), g2.clone());
            check_sign(w, &e, "garbage-first-byte-nonzero", &format!("len={len}"), &g2, SignEntry::Bytes);
        }
    }
    // 7. valid buffer of a key with another seed (same parameters)
    for _ in 0..(if k.light { 1 } else { 3 }) {
        let other_seed = rng.bytes(n);
        if !mine(&mut item) {
            continue;
        }
        let mut oa = AuxBuf::new(vec![0u8; used + 10]);
        let _ = libcall::keygen(k.alg, &k.levels, &other_seed, Some(&mut oa));
        let ob = oa.used_part().to_vec();
        check_keygen(w, &e, "other-seed", "exact", ob.clone());
        check_sign(w, &e, "other-seed", "exact", &ob, SignEntry::Bytes);
        check_sign(w, &e, "other-seed", "exact", &ob, SignEntry::TrySignAux);
        // cut exactly at the end of its cached levels (MAC gone) and padded with zeros
        let cut = ob[..ob.len() - n].to_vec();
        check_keygen(w, &e, "other-seed", "mac-cut", cut.clone());
        check_sign(w, &e, "other-seed", "mac-cut", &cut, SignEntry::Bytes);
        for pad in [n, 2 * n, 100] {
            let mut p = ob.clone();
            p.extend(std::iter::repeat(0u8).take(pad));
            check_keygen(w, &e, "other-seed", &format!("zero-padded={pad}"), p.clone());
            check_sign(w, &e, "other-seed", &format!("zero-padded={pad}"), &p, SignEntry::Bytes);
            let mut p = ob[..ob.len() - n].to_vec();
            p.extend(std::iter::repeat(0u8).take(pad));
            check_keygen(w, &e, "other-seed", &format!("mac-zeroed+pad={pad}"), p.clone());
            check_sign(w, &e, "other-seed", &format!("mac-zeroed+pad={pad}"), &p, SignEntry::Bytes);
        }
        // a buffer that the OTHER key's sign call set up (marked, partly filled, never MACed)
        let mut sa = AuxBuf::new(vec![0u8; used + 10]);
        let oblob = hss::make_blob(0, &k.levels, &other_seed);
        let _ = libcall::sign_bytes(k.alg, &oblob, b"other", Cb::Accept, Some(&mut sa));
        let sb = sa.used_part().to_vec();
        check_keygen(w, &e, "filled-by-sign-of-other-key", "exact", sb.clone());
        check_sign(w, &e, "filled-by-sign-of-other-key", "exact", &sb, SignEntry::Bytes);
    }
    // 9. a buffer that key generation filled for the same seed under another parameter list
    // (another Winternitz parameter, another height, another number of levels): it carries a valid
    // MAC for this seed, and the statement still demands the aux-less result
    {
        let mut others: Vec<Vec<Level>> = Vec::new();
        let mut o = k.levels.clone();
        o[0].w = if o[0].w == 8 { 4 } else { 8 };
        others.push(o);
        let mut o = k.levels.clone();
        o[0].h = if o[0].h == 5 { crate::common::h2() } else { 5 };
        if o[0].h != k.levels[0].h {
            others.push(o);
        }
        if k.levels.len() > 1 {
            others.push(k.levels[..1].to_vec());
        }
        for (oi, olv) in others.iter().enumerate() {
            if !mine(&mut item) || k.light {
                continue;
            }
            let mut oa = AuxBuf::new(vec![0u8; used + 200]);
            if !libcall::keygen(k.alg, olv, &k.seed, Some(&mut oa)).is_ok() {
                continue;
            }
            let ob = oa.used_part().to_vec();
            let detail = format!("filled-for={}", model::params::levels_to_string(olv));
            w.report.count("same_seed_other_parameter_buffers", 1);
            check_keygen(w, &e, SAME_SEED, &detail, ob.clone());
            check_sign(w, &e, SAME_SEED, &detail, &ob, SignEntry::Bytes);
            let _ = oi;
        }
    }
    // 8. a buffer filled by this key's sign rather than keygen, then re-used
    for len in [used, used + 10, used / 2 + 3] {
        if !mine(&mut item) {
            continue;
        }
        let mut sa = AuxBuf::new(vec![0u8; len]);
        let blob = hss::make_blob(1, &k.levels, &k.seed);
        let _ = libcall::sign_bytes(k.alg, &blob, b"x", Cb::Accept, Some(&mut sa));
        let sb = sa.used_part().to_vec();
        check_keygen(w, &e, "filled-by-sign", &format!("len={len}"), sb.clone());
        check_sign(w, &e, "filled-by-sign", &format!("len={len}"), &sb, SignEntry::Bytes);
        check_sign(w, &e, "filled-by-sign", &format!("len={len}"), &sb, SignEntry::TrySignAux);
    }
    if w.report.samples.len() < 6 {
        w.report.sample(
            J::obj()
                .with("hash", J::s(k.alg.name()))
                .with("levels", J::s(&lvs))
                .with("aux_used_length", J::u(used))
                .with("level_word", J::s(&format!("{word:#010x}")))
                .with("valid_aux", J::hexa(&full))
                .with("classes", J::s("fresh-zeroed(len 0..used+40), truncated-valid(every cut), valid(+padding), bitflip, level-word, garbage, other-seed, filled-by-sign")),
        );
    }
}

pub fn run(ctx: &Ctx) -> Report {
    let mut rng = ctx.rng("c10");
    let mut keys = Vec::new();
    for alg in model::ALL_ALGS {
        let n = alg.n();
        // H5 top tree, one and two levels; the n = 16 one gets every single bit flipped
        let w5 = if alg.is_shake() { 2 } else { 4 };
        let light = alg.is_shake() && ctx.quick();
        keys.push(Key { alg, levels: levels(&[(5, w5)]), seed: rng.bytes(n), all_bits: n == 16 && !light, tool: alg == Alg::Sha256_256, light, part: 0, parts: 1 });
        keys.push(Key { alg, levels: levels(&[(5, w5), (2, 8)]), seed: rng.bytes(n), all_bits: false, tool: alg == Alg::Sha256_256, light, part: 0, parts: 1 });
        keys.push(Key { alg, levels: levels(&[(2, 8), (2, 4)]), seed: rng.bytes(n), all_bits: true, tool: false, light: false, part: 0, parts: 1 });
        if !ctx.quick() {
            keys.push(Key { alg, levels: levels(&[(5, w5), (2, 4), (2, 8)]), seed: rng.bytes(n), all_bits: false, tool: false, light: false, part: 0, parts: 1 });
        }
    }
    // an H10 top tree (three cached levels of real size)
    keys.push(Key { alg: Alg::Sha256_256, levels: levels(&[(10, 4)]), seed: rng.bytes(32), all_bits: false, tool: true, light: true, part: 0, parts: 1 });
    // an H15 top tree: cached levels of 64 KiB and more, buffers up to a megabyte (every size and
    // offset computation of the aux code beyond 16 bits); not in a build whose limits exclude it
    if crate::common::in_build_limits(&levels(&[(15, 1)])) {
        keys.push(Key { alg: Alg::Sha256_128, levels: levels(&[(15, 1)]), seed: rng.bytes(16), all_bits: false, tool: false, light: true, part: 0, parts: 1 });
    }
    if !ctx.quick() {
        keys.push(Key { alg: Alg::Sha256_192, levels: levels(&[(10, 4), (2, 8)]), seed: rng.bytes(24), all_bits: false, tool: false, light: true, part: 0, parts: 1 });
        keys.push(Key { alg: Alg::Shake256_128, levels: levels(&[(10, 2)]), seed: rng.bytes(16), all_bits: false, tool: false, light: true, part: 0, parts: 1 });
    }
    // split every key's work items over several tasks so that the run parallelises
    let mut split: Vec<Key> = Vec::new();
    for k in keys {
        let parts = if k.all_bits && k.levels[0].h == 5 { 16 } else if k.levels[0].h >= 15 { 12 } else if k.light { 3 } else { 6 };
        for part in 0..parts {
            split.push(Key { alg: k.alg, levels: k.levels.clone(), seed: k.seed.clone(), all_bits: k.all_bits, tool: k.tool, light: k.light, part, parts });
        }
    }
    let mut keys = split;
    keys.sort_by(|a, b| {
        let ca = shared::sign_cost(a.alg, &a.levels) * if a.all_bits { 30.0 } else if a.light { 0.3 } else { 1.0 };
        let cb = shared::sign_cost(b.alg, &b.levels) * if b.all_bits { 30.0 } else if b.light { 0.3 } else { 1.0 };
        cb.partial_cmp(&ca).unwrap()
    });
    let tool = RefTool::new(ctx, "c10");
    let tool_ref = tool.as_ref();
    let mut rep = par_run(ctx, keys, |k, w| run_key(k, w, ctx, tool_ref));
    rep.rule = "per (hash, key shape, seed): the aux-less keygen and sign results (counters 0, 1, first roll-over, last) are the baseline; keygen and sign are repeated with aux buffers of every length 0..used+40 zeroed, the valid buffer truncated at every length / padded with zeros or noise, every single bit flipped (exhaustive for the n=16 H5 and the H2 keys, all level-word and MAC bits + sample otherwise), the level word replaced (single-bit neighbours, 0, all ones, levels above the tree, bits 26..30), garbage with zero and non-zero first byte, valid buffers of other seeds (exact, MAC cut, zero padded), buffers set up by sign instead of keygen, buffers filled by keygen for the same seed under another parameter list; any difference to the baseline, any error/panic, any write beyond the used length is a violation; fresh buffers are compared with the model's hash-sigs layout and (SHA-256/32) with the tool's .aux file; \
                distinct_nontrivial = distinct (hash, operation, corruption class, offset/length)"
        .into();
    if rep.counter("layout_matches") == 0 {
        rep.inconclusive("no fresh-buffer layout was compared");
    }
    if tool.is_none() || rep.counter("tool_aux_files") == 0 {
        rep.inconclusive("reference tool aux files not compared");
    }
    if rep.counter("single_bit_corruptions") == 0 {
        rep.inconclusive("no single-bit corruption exercised");
    }
    rep.assumptions.push("buffers that key generation filled for the same seed under another parameter list carry a valid MAC (the MAC is keyed by the seed only, as in hash-sigs) and are read back: recorded as a known finding, keyed without hash and shape".into());
    shared::add_assumptions(&mut rep);
    rep
}
