//! Pool of valid (message, signature, public key) triples and structure-aware mutation of them,
//! driven by the model's parser (which knows every field boundary).  Shared by C02 (what does
//! verification return) and C06 (does it return at all).

use model::hss::{self, UpperC};
use model::lms::TreeCache;
use model::params;
use model::{Alg, Cfg, Level, Rng};

use crate::common::{lcfg, levels, Ctx, RefTool};
use crate::libcall::{self, Cb, Out};

#[derive(Clone)]
pub struct Triple {
    pub alg: Alg,
    pub levels: Vec<Level>,
    pub seed: Vec<u8>,
    pub counter: u64,
    pub msg: Vec<u8>,
    pub sig: Vec<u8>,
    pub pk: Vec<u8>,
    /// who produced the signature: "lib", "model-randomC", "tool"
    pub origin: &'static str,
}

impl Triple {
    pub fn cfg(&self) -> Cfg {
        lcfg(self.alg)
    }
    pub fn wlist(&self) -> String {
        self.levels.iter().map(|l| l.w.to_string()).collect::<Vec<_>>().join("")
    }
}

pub struct Case<'a> {
    pub base: &'a Triple,
    /// hash the verifier is instantiated with (differs from base.alg for cross-hash cases)
    pub alg: Alg,
    pub msg: &'a [u8],
    pub sig: &'a [u8],
    pub pk: &'a [u8],
    pub class: &'a str,
    pub field: &'a str,
}

/// shapes of the pool: (levels, counters)
pub fn pool_shapes(ctx: &Ctx, alg: Alg) -> Vec<(Vec<Level>, Vec<u64>)> {
    let mut v: Vec<(Vec<Level>, Vec<u64>)> = Vec::new();
    for w in [1u32, 2, 4, 8] {
        v.push((vec![Level { h: crate::common::h2(), w }], vec![0, 3]));
    }
    let w5 = if alg.is_shake() { 4 } else { 8 };
    v.push((levels(&[(5, w5)]), vec![0, 17, 31]));
    v.push((levels(&[(2, 8), (2, 4)]), vec![0, 5, 15]));
    // the cheapest multi-level key there is (a complete verification costs ~300 hashes: affordable
    // even for the interpreter stage)
    v.push((levels(&[(2, 1), (2, 1)]), vec![6]));
    v.push((levels(&[(2, 4), (2, 8), (2, 2)]), vec![0, 21, 63]));
    v.push(((0..8).map(|_| Level { h: crate::common::h2(), w: 8 }).collect(), vec![0, 40000]));
    if alg.n() == 32 {
        // longer than 65535 bytes
        v.push(((0..8).map(|_| Level { h: crate::common::h2(), w: 1 }).collect(), vec![9]));
    }
    if !ctx.quick() {
        v.push((levels(&[(5, 4), (2, 8)]), vec![0, 127]));
        v.push((levels(&[(2, 1), (5, 2)]), vec![33]));
        v.push((levels(&[(2, 8), (2, 8), (2, 8), (2, 8), (2, 8)]), vec![1023]));
    }
    v
}

pub fn build_pool(ctx: &Ctx, rng: &mut Rng, cache: &mut TreeCache, tool: Option<&RefTool>) -> Vec<Triple> {
    let mut pool = Vec::new();
    for alg in model::ALL_ALGS {
        let cfg = lcfg(alg);
        for (lv, counters) in pool_shapes(ctx, alg) {
            let seed = rng.bytes(alg.n());
            let kp = match libcall::keygen(alg, &lv, &seed, None) {
                Out::Ok(k) => k,
                _ => continue,
            };
            for (ci, &c) in counters.iter().enumerate() {
                let blob = hss::make_blob(c, &lv, &seed);
                let mlen = [0usize, 1, 32, 33, 100][ci % 5];
                let msg = rng.bytes(mlen);
                if let Out::Ok(sig) = libcall::sign_bytes(alg, &blob, &msg, Cb::Accept, None).result {
                    pool.push(Triple { alg, levels: lv.clone(), seed: seed.clone(), counter: c, msg: msg.clone(), sig, pk: kp.vk.clone(), origin: "lib" });
                }
                // RFC-valid signatures the library would never produce itself: random C on every level
                if ci == 0 {
                    let b = hss::parse_blob(&cfg, &blob).unwrap();
                    let cs: Vec<Vec<u8>> = (0..lv.len()).map(|_| rng.bytes(alg.n())).collect();
                    let msig = hss::sign(&cfg, cache, &b, &msg, UpperC::ChildSeed, Some(&cs));
                    pool.push(Triple { alg, levels: lv.clone(), seed: seed.clone(), counter: c, msg, sig: msig, pk: kp.vk.clone(), origin: "model-randomC" });
                }
            }
        }
    }
    // in a build with reduced limits (stage `constrained`): keys that use every level's limit to
    // the full (heights capped at H5 for cost, smallest allowed W per level), signed by the library
    if let Some((nlev, hs, ws)) = crate::common::build_limits() {
        for alg in model::ALL_ALGS {
            for len in 1..=nlev.min(8) {
                let lv: Vec<Level> = (0..len).map(|i| Level { h: if hs[i] >= 5 { 5 } else { crate::common::h2() }, w: ws[i] }).collect();
                let seed = rng.bytes(alg.n());
                if let Out::Ok(kp) = libcall::keygen(alg, &lv, &seed, None) {
                    let total = hss::total_leaves(&lv) as u64;
                    for c in [0u64, total - 1] {
                        let msg = rng.bytes(17);
                        if let Out::Ok(sig) = libcall::sign_bytes(alg, &hss::make_blob(c, &lv, &seed), &msg, Cb::Accept, None).result {
                            pool.push(Triple { alg, levels: lv.clone(), seed: seed.clone(), counter: c, msg, sig, pk: kp.vk.clone(), origin: "lib" });
                        }
                    }
                }
            }
        }
    }
    // signatures of keys whose trees could never be generated (heights 15, 20, 25; several tall
    // levels): valid to any verifier, built by running the verification recurrence forwards
    for alg in model::ALL_ALGS {
        let cfg = lcfg(alg);
        let mut shapes: Vec<Vec<(u32, u32)>> = vec![vec![(15, 8)], vec![(20, 4)], vec![(25, 8)], vec![(25, 2), (20, 8)]];
        if alg.n() == 32 || !ctx.quick() {
            shapes.push(vec![(10, 8), (15, 4), (25, 8)]);
            shapes.push((0..8).map(|i| ([25u32, 20, 15, 10, 25, 5, 20, 25][i], 8u32)).collect());
        }
        // the largest signature the format allows for this hash: 8 levels of H25 / W1
        // (74 988 bytes for the 32-byte hashes = MAX_HSS_SIGNATURE_LENGTH; every cursor, length
        // field and fixed-capacity buffer of the parser is at its maximum)
        shapes.push(vec![(25, 1); 8]);
        if !ctx.quick() {
            shapes.push(vec![(25, 1)]);
            shapes.push(vec![(20, 1), (25, 2)]);
            shapes.push(vec![(25, 1); 7]);
        }
        for (si, spec) in shapes.iter().enumerate() {
            let lv = levels(spec);
            let qs: Vec<u32> = lv
                .iter()
                .enumerate()
                .map(|(i, l)| match (si + i) % 3 {
                    0 => (1u32 << l.h) - 1,
                    1 => 0,
                    _ => rng.below(1u64 << l.h) as u32,
                })
                .collect();
            let msg = rng.bytes([0usize, 1, 40, 200][si % 4]);
            let (sig, pk) = hss::synthetic_triple(&cfg, &lv, &qs, &msg, rng);
            pool.push(Triple { alg, levels: lv, seed: sig[4..12].to_vec(), counter: qs[0] as u64, msg, sig, pk, origin: "model-synthetic-tall" });
        }
    }
    // signatures in which an upper level VALIDLY signs a malformed or foreign child public key
    // (only the holder of the signing key can make these; no mutation of a finished signature
    // gets past the parent's signature): RFC 8554 rejects them when it interprets the child key
    for alg in model::ALL_ALGS {
        let cfg = lcfg(alg);
        let forgeries: Vec<(&str, usize, u32)> = vec![
            ("lmstype", 0, 0), ("lmstype", 0, 2), ("lmstype", 0, 4), ("lmstype", 0, 6), ("lmstype", 0, 10), ("lmstype", 0, 0xe000_0005), ("lmstype", 0, 0x0500_0000),
            ("otstype", 4, 0), ("otstype", 4, 1), ("otstype", 4, 5), ("otstype", 4, 0x100), ("otstype", 4, u32::MAX),
        ];
        for (fi, (what, off, val)) in forgeries.iter().enumerate() {
            for spec in [vec![(5u32, 8u32), (5, 4)], vec![(5, 4), (5, 8), (5, 2)]] {
                if spec.len() == 3 && (fi % 3 != 0 || ctx.quick()) {
                    continue;
                }
                let lv = levels(&spec);
                let at = lv.len() - 1 - (fi % (lv.len() - 1));
                let qs: Vec<u32> = lv.iter().map(|l| rng.below(1u64 << l.h) as u32).collect();
                let msg = rng.bytes(24);
                let (o, v) = (*off, *val);
                let f = move |orig: &[u8]| {
                    let mut b = orig.to_vec();
                    b[o..o + 4].copy_from_slice(&v.to_be_bytes());
                    b
                };
                let (sig, pk) = hss::synthetic_triple_forged(&cfg, &lv, &qs, &msg, rng, Some((at, &f)));
                let _ = what;
                pool.push(Triple { alg, levels: lv, seed: sig[4..12].to_vec(), counter: 1000 + fi as u64, msg, sig, pk, origin: "model-signed-forged-child-key" });
            }
        }
    }
    // reference-tool signatures (SHA-256/32, real heights)
    if let Some(t) = tool {
        for spec in [vec![(5u32, 8u32)], vec![(5, 4), (5, 8)]] {
            let lv = levels(&spec);
            let seed = rng.bytes(32);
            if let Some((prv, pubk, _)) = t.genkey("pool", &lv, &seed, 0) {
                let msg = rng.bytes(50);
                t.write("poolmsg", &msg);
                let _ = prv;
                if let Some(sig) = t.sign("pool", "poolmsg") {
                    pool.push(Triple { alg: Alg::Sha256_256, levels: lv, seed, counter: 0, msg, sig, pk: pubk, origin: "tool" });
                }
            }
        }
    }
    pool
}

#[derive(Clone)]
pub struct Field {
    pub name: String,
    pub off: usize,
    pub len: usize,
    /// a 4-byte big-endian integer field
    pub int: bool,
}

/// all fields of a signature, by the model's layout
pub fn sig_fields(cfg: &Cfg, sig: &[u8]) -> Vec<Field> {
    let n = cfg.n();
    let mut v = vec![Field { name: "Nspk".into(), off: 0, len: 4, int: true }];
    let lay = match hss::parse_sig(cfg, sig) {
        Some(l) => l,
        None => return v,
    };
    for (l, s) in lay.sigs.iter().enumerate() {
        v.push(Field { name: format!("sig{l}.q"), off: s.off_q, len: 4, int: true });
        v.push(Field { name: format!("sig{l}.otstype"), off: s.off_otstype, len: 4, int: true });
        v.push(Field { name: format!("sig{l}.C"), off: s.off_c, len: n, int: false });
        let p = s.ots.p;
        let u = s.ots.u;
        let mut ys = vec![0, 1, p / 2, u - 1, u, p - 1];
        ys.sort_unstable();
        ys.dedup();
        for i in ys {
            v.push(Field { name: format!("sig{l}.y[{}]", if i < u { "msg" } else { "cksm" }), off: s.off_y + i * n, len: n, int: false });
        }
        v.push(Field { name: format!("sig{l}.lmstype"), off: s.off_lmstype, len: 4, int: true });
        for j in 0..s.h as usize {
            v.push(Field { name: format!("sig{l}.path"), off: s.off_path + j * n, len: n, int: false });
        }
    }
    for (l, (po, _)) in lay.pubs.iter().enumerate() {
        v.push(Field { name: format!("pub{l}.lmstype"), off: *po, len: 4, int: true });
        v.push(Field { name: format!("pub{l}.otstype"), off: po + 4, len: 4, int: true });
        v.push(Field { name: format!("pub{l}.I"), off: po + 8, len: 16, int: false });
        v.push(Field { name: format!("pub{l}.K"), off: po + 24, len: n, int: false });
    }
    v
}

pub fn pk_fields(n: usize) -> Vec<Field> {
    vec![
        Field { name: "pk.L".into(), off: 0, len: 4, int: true },
        Field { name: "pk.lmstype".into(), off: 4, len: 4, int: true },
        Field { name: "pk.otstype".into(), off: 8, len: 4, int: true },
        Field { name: "pk.I".into(), off: 12, len: 16, int: false },
        Field { name: "pk.K".into(), off: 28, len: n, int: false },
    ]
}

fn generic_name(f: &str) -> String {
    // "sig2.q" -> "sig.q": the level index is kept out of the class key
    let mut out = String::new();
    for ch in f.chars() {
        if !ch.is_ascii_digit() {
            out.push(ch);
        }
    }
    out
}

fn put_u32(buf: &mut [u8], off: usize, v: u32) {
    buf[off..off + 4].copy_from_slice(&v.to_be_bytes());
}
fn get_u32(buf: &[u8], off: usize) -> u32 {
    u32::from_be_bytes(buf[off..off + 4].try_into().unwrap())
}

pub const WILD_U32: [u32; 16] = [0, 1, 2, 3, 4, 5, 6, 7, 8, 9, 255, 256, 1 << 16, 1 << 31, u32::MAX - 1, u32::MAX];

/// Generate every mutation of `t` (and splices with `others`) and hand each to `f`.
/// `budget` bounds the sampled part per triple; the enumerated parts are always complete.
#[derive(Clone, Copy)]
pub struct Opts {
    /// every byte position x 4 alterations
    pub exhaustive_bytes: bool,
    /// every prefix length instead of a stride for long signatures
    pub dense_truncation: bool,
    /// all 256 values of every byte of every integer (header / type / level) field
    pub all_header_bytes: bool,
    /// sampled mutations per triple
    pub budget: usize,
}

pub fn mutate(t: &Triple, others: &[Triple], rng: &mut Rng, opts: Opts, f: &mut dyn FnMut(Case)) {
    let exhaustive_bytes = opts.exhaustive_bytes;
    let budget = opts.budget;
    let cfg = t.cfg();
    let n = cfg.n();
    let emit = |f: &mut dyn FnMut(Case), alg: Alg, msg: &[u8], sig: &[u8], pk: &[u8], class: &str, field: &str| {
        f(Case { base: t, alg, msg, sig, pk, class, field: &generic_name(field) });
    };
    // the valid triple itself, and the same triple with another message
    emit(f, t.alg, &t.msg, &t.sig, &t.pk, "valid", "-");
    let mut m2 = t.msg.clone();
    if m2.is_empty() {
        m2.push(0);
    } else {
        let i = rng.range(0, m2.len());
        m2[i] ^= 1 << rng.below(8);
    }
    emit(f, t.alg, &m2, &t.sig, &t.pk, "bitflip", "message");
    let mut m3 = t.msg.clone();
    m3.push(0);
    emit(f, t.alg, &m3, &t.sig, &t.pk, "extend", "message");
    if !t.msg.is_empty() {
        emit(f, t.alg, &t.msg[..t.msg.len() - 1], &t.sig, &t.pk, "truncate", "message");
    }

    // field-wise alterations
    let sfields = sig_fields(&cfg, &t.sig);
    for fl in &sfields {
        let mut s = t.sig.clone();
        let bit = rng.below((fl.len * 8) as u64) as usize;
        s[fl.off + bit / 8] ^= 1 << (bit % 8);
        emit(f, t.alg, &t.msg, &s, &t.pk, "bitflip", &fl.name);
        for (cls, val) in [("set00", 0x00u8), ("setff", 0xffu8)] {
            let mut s = t.sig.clone();
            for b in &mut s[fl.off..fl.off + fl.len] {
                *b = val;
            }
            emit(f, t.alg, &t.msg, &s, &t.pk, cls, &fl.name);
        }
        if fl.int {
            let cur = get_u32(&t.sig, fl.off);
            for (cls, v) in [("plus1", cur.wrapping_add(1)), ("minus1", cur.wrapping_sub(1))] {
                let mut s = t.sig.clone();
                put_u32(&mut s, fl.off, v);
                emit(f, t.alg, &t.msg, &s, &t.pk, cls, &fl.name);
            }
        } else {
            let mut s = t.sig.clone();
            let i = fl.off + fl.len - 1;
            s[i] = s[i].wrapping_add(1);
            emit(f, t.alg, &t.msg, &s, &t.pk, "plus1", &fl.name);
        }
    }
    for fl in pk_fields(n) {
        if t.pk.len() < fl.off + fl.len {
            continue;
        }
        let mut k = t.pk.clone();
        let bit = rng.below((fl.len * 8) as u64) as usize;
        k[fl.off + bit / 8] ^= 1 << (bit % 8);
        emit(f, t.alg, &t.msg, &t.sig, &k, "bitflip", &fl.name);
        for (cls, val) in [("set00", 0x00u8), ("setff", 0xffu8)] {
            let mut k = t.pk.clone();
            for b in &mut k[fl.off..fl.off + fl.len] {
                *b = val;
            }
            emit(f, t.alg, &t.msg, &t.sig, &k, cls, &fl.name);
        }
        if fl.int {
            let cur = get_u32(&t.pk, fl.off);
            for (cls, v) in [("plus1", cur.wrapping_add(1)), ("minus1", cur.wrapping_sub(1))] {
                let mut k = t.pk.clone();
                put_u32(&mut k, fl.off, v);
                emit(f, t.alg, &t.msg, &t.sig, &k, cls, &fl.name);
            }
        }
    }

    // every value of interest in every integer field of signature and key
    for fl in sfields.iter().filter(|f| f.int) {
        let vals: Vec<u32> = if fl.name.ends_with("type") { (0..=16).chain([255, 256, 1 << 16, 1 << 24, 1 << 31, u32::MAX]).collect() } else { WILD_U32.to_vec() };
        for v in vals {
            let mut s = t.sig.clone();
            put_u32(&mut s, fl.off, v);
            emit(f, t.alg, &t.msg, &s, &t.pk, "intvalue", &fl.name);
        }
    }
    for fl in pk_fields(n).iter().filter(|f| f.int) {
        let vals: Vec<u32> = if fl.name.ends_with("type") { (0..=16).chain([255, 256, 1 << 16, 1 << 31, u32::MAX]).collect() } else { WILD_U32.to_vec() };
        for v in vals {
            let mut k = t.pk.clone();
            put_u32(&mut k, fl.off, v);
            emit(f, t.alg, &t.msg, &t.sig, &k, "intvalue", &fl.name);
        }
    }
    if opts.all_header_bytes {
        for fl in sfields.iter().filter(|f| f.int) {
            for b in 0..4 {
                for v in 0..=255u8 {
                    if t.sig[fl.off + b] == v {
                        continue;
                    }
                    let mut s = t.sig.clone();
                    s[fl.off + b] = v;
                    emit(f, t.alg, &t.msg, &s, &t.pk, "header-byte-value", &fl.name);
                }
            }
        }
        for fl in pk_fields(n).iter().filter(|f| f.int) {
            for b in 0..4 {
                for v in 0..=255u8 {
                    let mut k = t.pk.clone();
                    k[fl.off + b] = v;
                    emit(f, t.alg, &t.msg, &t.sig, &k, "header-byte-value", &fl.name);
                }
            }
        }
    }
    // leaf index boundaries on every level
    if let Some(lay) = hss::parse_sig(&cfg, &t.sig) {
        for s in &lay.sigs {
            for q in [(1u32 << s.h) - 1, 1u32 << s.h, (1u32 << s.h) + 1, u32::MAX] {
                let mut sg = t.sig.clone();
                put_u32(&mut sg, s.off_q, q);
                emit(f, t.alg, &t.msg, &sg, &t.pk, "q-boundary", "sig.q");
            }
        }
        // type code changed AND the lengths re-cut to match the new type
        for (li, s) in lay.sigs.iter().enumerate() {
            for newcode in 1..=4u32 {
                if newcode == s.ots_code {
                    continue;
                }
                let o2 = params::ots(&cfg, newcode).unwrap();
                let mut sg = t.sig[..s.off_otstype].to_vec();
                sg.extend_from_slice(&newcode.to_be_bytes());
                sg.extend_from_slice(&t.sig[s.off_c..s.off_c + n]);
                let want = o2.p * n;
                let have = &t.sig[s.off_y..s.off_lmstype];
                for k in 0..want {
                    sg.push(have[k % have.len()]);
                }
                sg.extend_from_slice(&t.sig[s.off_lmstype..]);
                emit(f, t.alg, &t.msg, &sg, &t.pk, "otstype-recut", &format!("sig{li}.otstype"));
            }
            for newlms in [1u32, 5, 6, 7, 8, 9] {
                if newlms == s.lms_code {
                    continue;
                }
                let h2 = match params::lms_height(&cfg, newlms) {
                    Some(h) => h as usize,
                    None => continue,
                };
                let mut sg = t.sig[..s.off_lmstype].to_vec();
                sg.extend_from_slice(&newlms.to_be_bytes());
                let have = &t.sig[s.off_path..s.end];
                for k in 0..h2 * n {
                    sg.push(have[k % have.len()]);
                }
                sg.extend_from_slice(&t.sig[s.end..]);
                emit(f, t.alg, &t.msg, &sg, &t.pk, "lmstype-recut", &format!("sig{li}.lmstype"));
            }
        }
        // type codes of the other registry (NIST SP 800-208 / IANA numbers 5..16 for LM-OTS,
        // 0x0a..0x18 for LMS) put CONSISTENTLY into the public key and the top-level signature,
        // with the lengths re-cut to what that registry says for the code (p chains, h path nodes) -
        // a single changed field is caught by the type comparison, this gets past it
        {
            let s0 = &lay.sigs[0];
            // (code, p) of LMOTS_SHA256_N24_W1..8, LMOTS_SHAKE_N32_W1..8, LMOTS_SHAKE_N24_W1..8
            let ots_reg: [(u32, usize); 12] = [(5, 200), (6, 101), (7, 51), (8, 26), (9, 265), (10, 133), (11, 67), (12, 34), (13, 200), (14, 101), (15, 51), (16, 26)];
            for (code, p) in ots_reg {
                let mut sg = t.sig[..s0.off_otstype].to_vec();
                sg.extend_from_slice(&code.to_be_bytes());
                sg.extend_from_slice(&t.sig[s0.off_c..s0.off_c + n]);
                let have = &t.sig[s0.off_y..s0.off_lmstype];
                for k in 0..p * n {
                    sg.push(have[k % have.len()]);
                }
                sg.extend_from_slice(&t.sig[s0.off_lmstype..]);
                let mut k = t.pk.clone();
                if k.len() >= 12 {
                    put_u32(&mut k, 8, code);
                }
                emit(f, t.alg, &t.msg, &sg, &k, "other-registry-code-in-key-and-signature", "otstype");
            }
            // LMS_SHA256_M24_H5..H25 (0x0a..0x0e), LMS_SHAKE_M32 (0x0f..0x13), LMS_SHAKE_M24 (0x14..0x18)
            for (i, code) in (0x0au32..=0x18).enumerate() {
                let h = [5usize, 10, 15, 20, 25][i % 5];
                let mut sg = t.sig[..s0.off_lmstype].to_vec();
                sg.extend_from_slice(&code.to_be_bytes());
                let have = &t.sig[s0.off_path..s0.end];
                for k in 0..h * n {
                    sg.push(have[k % have.len().max(1)]);
                }
                sg.extend_from_slice(&t.sig[s0.end..]);
                let mut k = t.pk.clone();
                if k.len() >= 8 {
                    put_u32(&mut k, 4, code);
                }
                emit(f, t.alg, &t.msg, &sg, &k, "other-registry-code-in-key-and-signature", "lmstype");
            }
        }
        // level count manipulations
        for nspk in WILD_U32 {
            // (a) header only
            let mut sg = t.sig.clone();
            put_u32(&mut sg, 0, nspk);
            let mut k = t.pk.clone();
            put_u32(&mut k, 0, nspk.wrapping_add(1));
            emit(f, t.alg, &t.msg, &sg, &k, "level-count", "Nspk+pk.L");
            // (b) with enough well-formed signed-public-key blocks appended that parsing proceeds
            if nspk <= 10 && !lay.pubs.is_empty() {
                let (po, pl) = lay.pubs[0];
                let block = &t.sig[lay.sigs[0].start..po + pl];
                let mut sg = nspk.to_be_bytes().to_vec();
                for _ in 0..nspk {
                    sg.extend_from_slice(block);
                }
                let last = lay.sigs.last().unwrap();
                sg.extend_from_slice(&t.sig[last.start..last.end]);
                emit(f, t.alg, &t.msg, &sg, &k, "level-count-filled", "Nspk+pk.L");
            } else if nspk <= 10 {
                let last = lay.sigs.last().unwrap();
                let mut block = t.sig[last.start..last.end].to_vec();
                block.extend_from_slice(&t.pk[4..]);
                let mut sg = nspk.to_be_bytes().to_vec();
                for _ in 0..nspk {
                    sg.extend_from_slice(&block);
                }
                sg.extend_from_slice(&t.sig[last.start..last.end]);
                emit(f, t.alg, &t.msg, &sg, &k, "level-count-filled", "Nspk+pk.L");
            }
        }
        // chain truncation: drop the last level and present the child public key as the message
        if lay.pubs.len() >= 1 {
            let nsp = lay.pubs.len();
            let (po, pl) = lay.pubs[nsp - 1];
            let child = t.sig[po..po + pl].to_vec();
            let mut sg = ((nsp - 1) as u32).to_be_bytes().to_vec();
            sg.extend_from_slice(&t.sig[4..lay.sigs[nsp - 1].end]);
            // against the original key: Nspk + 1 != L
            emit(f, t.alg, &child, &sg, &t.pk, "chain-truncated", "Nspk");
            // against the key with L decremented: RFC 8554 accepts, so must the library
            let mut k = t.pk.clone();
            put_u32(&mut k, 0, nsp as u32);
            emit(f, t.alg, &child, &sg, &k, "chain-truncated-L-1", "Nspk+pk.L");
            // without fixing the header
            let mut sg2 = t.sig[..lay.sigs[nsp - 1].end].to_vec();
            put_u32(&mut sg2, 0, nsp as u32);
            emit(f, t.alg, &child, &sg2, &t.pk, "chain-truncated-header-kept", "Nspk");
        }
        // a child key that carries its parent's tree identifier (and a parent's root)
        for (l, (po, _)) in lay.pubs.iter().enumerate() {
            let parent_i: Vec<u8> = if l == 0 { t.pk[12..28].to_vec() } else { let (pp, _) = lay.pubs[l - 1]; t.sig[pp + 8..pp + 24].to_vec() };
            let mut sg = t.sig.clone();
            sg[po + 8..po + 24].copy_from_slice(&parent_i);
            emit(f, t.alg, &t.msg, &sg, &t.pk, "child-I-equals-parent-I", &format!("pub{l}.I"));
            if l == 0 && t.pk.len() == 28 + n {
                let mut sg2 = t.sig.clone();
                sg2[*po..po + 24 + n].copy_from_slice(&t.pk[4..]);
                emit(f, t.alg, &t.msg, &sg2, &t.pk, "child-key-equals-parent-key", "pub0");
            }
        }
        // cross-level splice of whole signed-public-key blocks
        if lay.pubs.len() >= 2 {
            let b0 = (lay.sigs[0].start, lay.pubs[0].0 + lay.pubs[0].1);
            let b1 = (lay.sigs[1].start, lay.pubs[1].0 + lay.pubs[1].1);
            let mut sg = t.sig[..b0.0].to_vec();
            sg.extend_from_slice(&t.sig[b1.0..b1.1]);
            sg.extend_from_slice(&t.sig[b0.0..b0.1]);
            sg.extend_from_slice(&t.sig[b1.1..]);
            emit(f, t.alg, &t.msg, &sg, &t.pk, "swap-levels", "signed-public-key-block");
            // same field swapped between two levels
            for fname in ["C", "q"] {
                let (o0, o1, l) = if fname == "C" { (lay.sigs[0].off_c, lay.sigs[1].off_c, n) } else { (lay.sigs[0].off_q, lay.sigs[1].off_q, 4) };
                let mut sg = t.sig.clone();
                let a = t.sig[o0..o0 + l].to_vec();
                let b = t.sig[o1..o1 + l].to_vec();
                sg[o0..o0 + l].copy_from_slice(&b);
                sg[o1..o1 + l].copy_from_slice(&a);
                emit(f, t.alg, &t.msg, &sg, &t.pk, "swap-field-between-levels", &format!("sig.{fname}"));
            }
        }
    }

    // splices with other triples
    for o in others.iter().filter(|o| o.alg == t.alg && (o.seed != t.seed || o.counter != t.counter)).take(4) {
        let same_key = o.seed == t.seed && o.levels == t.levels;
        let cls = if same_key { "other-signature-same-key" } else { "signature-of-other-key" };
        emit(f, t.alg, &t.msg, &o.sig, &t.pk, cls, "signature");
        emit(f, t.alg, &o.msg, &o.sig, &t.pk, cls, "signature+message");
        if !same_key {
            emit(f, t.alg, &t.msg, &t.sig, &o.pk, "key-of-other-key", "public-key");
        }
        // same field taken from the other signature (when the layouts agree)
        if o.sig.len() == t.sig.len() && o.levels == t.levels {
            for fl in sfields.iter().filter(|f| !f.int) {
                if rng.chance(1, 3) {
                    let mut s = t.sig.clone();
                    s[fl.off..fl.off + fl.len].copy_from_slice(&o.sig[fl.off..fl.off + fl.len]);
                    emit(f, t.alg, &t.msg, &s, &t.pk, "field-from-other-signature", &fl.name);
                }
            }
        }
    }
    // the same bytes under another hash of equal output length
    for a2 in model::ALL_ALGS {
        if a2 != t.alg && a2.n() == n {
            emit(f, a2, &t.msg, &t.sig, &t.pk, "cross-hash", "hash");
        }
    }
    // and under hashes of different output length (lengths do not fit)
    for a2 in model::ALL_ALGS {
        if a2.n() != n && a2.is_shake() == t.alg.is_shake() {
            emit(f, a2, &t.msg, &t.sig, &t.pk, "cross-length", "hash");
        }
    }

    // truncation at every length (strided for long signatures) and extension
    let step = if t.sig.len() <= 700 || opts.dense_truncation { 1 } else { (t.sig.len() / 350).max(1) };
    let mut cut = 0;
    while cut < t.sig.len() {
        emit(f, t.alg, &t.msg, &t.sig[..cut], &t.pk, "truncate", "signature");
        cut += if cut < 64 { 1 } else { step };
    }
    for fl in &sfields {
        // exactly at, one before and one after every field boundary
        for c in [fl.off.saturating_sub(1), fl.off, fl.off + 1] {
            if c < t.sig.len() {
                emit(f, t.alg, &t.msg, &t.sig[..c], &t.pk, "truncate-at-field", "signature");
            }
        }
    }
    for ext in 1..=n + 4 {
        let mut s = t.sig.clone();
        for _ in 0..ext {
            s.push(if rng.chance(1, 2) { 0 } else { rng.next() as u8 });
        }
        emit(f, t.alg, &t.msg, &s, &t.pk, "extend", "signature");
    }
    for cut in 0..t.pk.len() {
        emit(f, t.alg, &t.msg, &t.sig, &t.pk[..cut], "truncate", "public-key");
    }
    for ext in 1..=n + 4 {
        let mut k = t.pk.clone();
        for _ in 0..ext {
            k.push(rng.next() as u8);
        }
        emit(f, t.alg, &t.msg, &t.sig, &k, "extend", "public-key");
    }

    // every byte position x 4 alterations (only for the smallest signatures)
    if exhaustive_bytes {
        for pos in 0..t.sig.len() {
            for (cls, v) in [("byte-flip1", t.sig[pos] ^ 1), ("byte-flip80", t.sig[pos] ^ 0x80), ("byte-00", 0u8), ("byte-ff", 0xffu8)] {
                if v == t.sig[pos] {
                    continue;
                }
                let mut s = t.sig.clone();
                s[pos] = v;
                emit(f, t.alg, &t.msg, &s, &t.pk, "every-byte", cls);
            }
        }
        for pos in 0..t.pk.len() {
            for v in [t.pk[pos] ^ 1, t.pk[pos] ^ 0x80] {
                let mut k = t.pk.clone();
                k[pos] = v;
                emit(f, t.alg, &t.msg, &t.sig, &k, "every-byte", "public-key");
            }
        }
    }

    // sampled: random byte noise and random bytes of valid lengths
    for _ in 0..budget {
        let mut s = t.sig.clone();
        for _ in 0..rng.range(1, 4) {
            let p = rng.range(0, s.len());
            s[p] = rng.next() as u8;
        }
        emit(f, t.alg, &t.msg, &s, &t.pk, "random-bytes-changed", "signature");
    }
    for _ in 0..(budget / 8).max(1) {
        let mut s = rng.bytes(t.sig.len());
        emit(f, t.alg, &t.msg, &s, &t.pk, "random-of-valid-length", "signature");
        // keep the header and the type fields, randomise the rest
        s[..4].copy_from_slice(&t.sig[..4]);
        for fl in sfields.iter().filter(|f| f.int) {
            s[fl.off..fl.off + 4].copy_from_slice(&t.sig[fl.off..fl.off + 4]);
        }
        emit(f, t.alg, &t.msg, &s, &t.pk, "random-body-valid-types", "signature");
        let k = rng.bytes(t.pk.len());
        emit(f, t.alg, &t.msg, &t.sig, &k, "random-of-valid-length", "public-key");
    }
}
