//! C01: every signature the library releases verifies under the matching public key, through
//! each verification entry point, at every point of the key's lifetime.
//!
//! Refuted by: `Ok(signature)` from a signing entry point that any of the three verification
//! entry points rejects (or panics on) for the public key `keygen` returned for the same seed.

use std::collections::BTreeSet;

use model::hss;
use model::{Alg, Level, Report, Rng, J};

use crate::common::{levels, message_lengths, par_run, Ctx, Worker, WS};
use crate::libcall::{self, Cb, Out, SignEntry};
use crate::props::shared::{self, random_levels};

pub enum Plan {
    /// sign at these counters (state produced by writing the counter field of the blob)
    Points(Vec<u64>),
    /// walk `count` consecutive signatures through the real callback chain starting at `from`
    Walk { from: u64, count: u64 },
}

pub struct Case {
    pub alg: Alg,
    pub levels: Vec<Level>,
    pub seed: Vec<u8>,
    pub plan: Plan,
    pub tag: String,
}

fn nontrivial(alg: Alg, lv: &[Level], counter: u64) -> bool {
    lv.len() > 1 || counter > 0 || !(alg.n() == 32 && (lv[0].w == 1 || lv[0].w == 2))
}

fn msg_class(len: usize) -> &'static str {
    match len {
        0 => "empty",
        1..=55 => "short",
        56..=137 => "block-boundary",
        138..=4096 => "kilobytes",
        _ => "large",
    }
}

/// which level's tree rolled over between counter c-1 and c (None if only the bottom leaf moved)
pub fn rollover_level(lv: &[Level], c: u64) -> Option<usize> {
    if c == 0 {
        return None;
    }
    let a = hss::leaf_digits(lv, c - 1);
    let b = hss::leaf_digits(lv, c);
    (0..lv.len().saturating_sub(1)).find(|i| a[*i] != b[*i])
}

fn check_release(
    r: &mut Report,
    c: &Case,
    vk: &[u8],
    counter: u64,
    msg: &[u8],
    sig: &[u8],
    entry: SignEntry,
) {
    r.eval();
    r.count("released_signatures", 1);
    for (e, out) in shared::verify_all_entries(c.alg, msg, sig, vk) {
        r.count("verify_calls", 1);
        if !out.is_ok() {
            let key = format!(
                "C01:rejected:{}:{}:{}:via={}",
                c.alg.name(),
                model::params::levels_to_string(&c.levels),
                if counter == 0 { "counter0".to_string() } else { format!("rollover={:?}", rollover_level(&c.levels, counter)) },
                e.name()
            );
            r.violation(
                &key,
                &format!("signature released by {:?} at counter {} is not accepted by {}: {}", entry, counter, e.name(), out.describe()),
                shared::replay_doc("C01", c.alg, &c.levels, &c.seed, counter, msg).with("signature", J::hexa(sig)),
            );
        }
    }
    if nontrivial(c.alg, &c.levels, counter) {
        r.distinct(&format!("{}|{}|{}|{}", c.alg.name(), model::params::levels_to_string(&c.levels), counter, msg_class(msg.len())));
    }
    if let Some(l) = rollover_level(&c.levels, counter) {
        r.count(&format!("rollovers_crossed_level{}_{}", l, c.alg.name()), 1);
        r.count("rollovers_crossed", 1);
    }
}

/// what a driver gets to see for every released signature
pub struct Release<'a> {
    pub case: &'a Case,
    pub vk: &'a [u8],
    pub blob: &'a [u8],
    pub counter: u64,
    pub msg: &'a [u8],
    pub sig: &'a [u8],
    pub entry: SignEntry,
    /// successor key handed to the callback / held by the in-memory key afterwards
    pub next: Option<&'a [u8]>,
}

pub type Hook<'h> = &'h (dyn Fn(&mut Worker, &Release) + Sync);

fn c01_hook(w: &mut Worker, rel: &Release) {
    check_release(&mut w.report, rel.case, rel.vk, rel.counter, rel.msg, rel.sig, rel.entry);
}

/// hbs_lms::sign_mut where the build has it (library feature fast_verify): returns the recording
/// and the message as the call left it (that is what the signature is for)
#[cfg(feature = "fv")]
fn sign_mut_release(alg: Alg, blob: &[u8], msg: &[u8]) -> Option<(libcall::SignRec, Vec<u8>)> {
    let mut m = msg.to_vec();
    if m.is_empty() {
        // sign_mut needs at least one byte in front of the n-byte trailer
        m.push(0x5a);
    }
    m.extend(std::iter::repeat(0u8).take(alg.n()));
    let (rec, _) = libcall::sign_mut(alg, blob, &mut m, Cb::Accept);
    Some((rec, m))
}

#[cfg(not(feature = "fv"))]
fn sign_mut_release(_alg: Alg, _blob: &[u8], _msg: &[u8]) -> Option<(libcall::SignRec, Vec<u8>)> {
    None
}

pub fn run_case(prop: &str, c: Case, w: &mut Worker, ctx: &Ctx, hook: Hook) {
    let mut rng = Rng::new(ctx.seed).fork(&format!("c01-{}", c.tag));
    // key generation fills an aux buffer big enough to cache the whole top tree (capped at 2 MiB);
    // the signing entry points that take aux data get a copy of it (what it may and may not change
    // is C10's business; here the released signature must verify either way)
    let n = c.alg.n();
    let mut aux0 = libcall::AuxBuf::new(vec![0u8; (4 + n + (n << (c.levels[0].h + 1).min(17))).min(2 << 20)]);
    // ... and, for the cheaper keys, the aux buffer of ANOTHER key of the same shape (another seed):
    // marked as in use, MAC of a foreign seed; it must be ignored
    let mut aux_foreign = if shared::sign_cost(c.alg, &c.levels) < 3.0e6 {
        let mut a = libcall::AuxBuf::new(vec![0u8; (4 + n + (n << (c.levels[0].h + 1).min(12))).min(1 << 16)]);
        let other: Vec<u8> = c.seed.iter().map(|b| b ^ 0x5a).collect();
        let _ = libcall::keygen(c.alg, &c.levels, &other, Some(&mut a));
        Some(a)
    } else {
        None
    };
    let kp = match libcall::keygen(c.alg, &c.levels, &c.seed, Some(&mut aux0)) {
        Out::Ok(k) => k,
        other => {
            w.report.violation(
                &format!("{prop}:keygen:{}:{}", c.alg.name(), model::params::levels_to_string(&c.levels)),
                &format!("keygen failed for a valid parameter list: {}", other.describe()),
                shared::replay_doc("C01", c.alg, &c.levels, &c.seed, 0, &[]),
            );
            return;
        }
    };
    let lens = message_lengths(ctx);
    let entries = [SignEntry::Bytes, SignEntry::TrySign, SignEntry::TrySignAux];
    match &c.plan {
        Plan::Points(points) => {
            for (pi, &counter) in points.iter().enumerate() {
                let mut blob = kp.sk.clone();
                blob[..8].copy_from_slice(&counter.to_be_bytes());
                // in a fast_verify build also through sign_mut at this state
                if prop == "C01" {
                    let m0 = rng.bytes(20 + pi);
                    if let Some((rec, m)) = sign_mut_release(c.alg, &blob, &m0) {
                        w.report.count("sign_mut_releases", 1);
                        match rec.result {
                            Out::Ok(sig) => hook(w, &Release { case: &c, vk: &kp.vk, blob: &blob, counter, msg: &m, sig: &sig, entry: SignEntry::Bytes, next: rec.cb_args.first().map(|v| v.as_slice()) }),
                            other => w.report.violation(
                                &format!("{prop}:sign_mut_failed:{}:{}", c.alg.name(), model::params::levels_to_string(&c.levels)),
                                &format!("sign_mut failed on a live key at counter {counter}: {}", other.describe()),
                                shared::replay_doc(prop, c.alg, &c.levels, &c.seed, counter, &m0),
                            ),
                        }
                    }
                }
                // a few message shapes per point, all of them over the whole case list
                for k in 0..3 {
                    let len = lens[(pi * 3 + k + rng.below(lens.len() as u64) as usize) % lens.len()];
                    let msg = rng.bytes(len);
                    let entry = entries[(pi + k) % 3];
                    let rec = match entry {
                        SignEntry::Bytes => libcall::sign_bytes(c.alg, &blob, &msg, Cb::Accept, if pi % 2 == 1 { Some(&mut aux0) } else if pi % 4 == 2 { aux_foreign.as_mut() } else { None }),
                        SignEntry::TrySignAux => libcall::sign_key(c.alg, &blob, &msg, SignEntry::TrySignAux, Some(&mut aux0)),
                        e => libcall::sign_key(c.alg, &blob, &msg, e, None),
                    };
                    let next = match entry {
                        SignEntry::Bytes => rec.cb_args.first().cloned(),
                        _ => rec.key_after.clone(),
                    };
                    match rec.result {
                        Out::Ok(sig) => {
                            hook(w, &Release { case: &c, vk: &kp.vk, blob: &blob, counter, msg: &msg, sig: &sig, entry, next: next.as_deref() });
                            if w.report.samples.len() < 8 && k == 0 {
                                w.report.sample(
                                    shared::replay_doc(prop, c.alg, &c.levels, &c.seed, counter, &msg)
                                        .with("entry", J::s(&format!("{entry:?}")))
                                        .with("signature_len", J::u(sig.len())),
                                );
                            }
                        }
                        other => {
                            // refusing to sign is C05/C11 business unless the key is alive
                            w.report.violation(
                                &format!("{prop}:sign_failed:{}:{}", c.alg.name(), model::params::levels_to_string(&c.levels)),
                                &format!("sign failed on a live key at counter {counter}: {}", other.describe()),
                                shared::replay_doc(prop, c.alg, &c.levels, &c.seed, counter, &msg),
                            );
                        }
                    }
                }
            }
        }
        Plan::Walk { from, count } => {
            let mut blob = kp.sk.clone();
            blob[..8].copy_from_slice(&from.to_be_bytes());
            let with_sign_mut = prop == "C01" && cfg!(feature = "fv");
            for step in 0..*count {
                let counter = from + step;
                let len = if step % 7 == 0 { *rng.pick(&lens) } else { rng.range(0, 64) };
                let len = if len > 4096 && step % 49 != 0 { 33 } else { len };
                let msg = rng.bytes(len);
                let entry = entries[(step % 3) as usize];
                let cur = blob.clone();
                // every fourth step of a walk goes through sign_mut in a fast_verify build
                let (rec, msg, entry) = match (with_sign_mut && step % 4 == 3).then(|| sign_mut_release(c.alg, &cur, &msg)).flatten() {
                    Some((r, m)) => {
                        w.report.count("sign_mut_releases", 1);
                        (r, m, SignEntry::Bytes)
                    }
                    None => (
                        match entry {
                            SignEntry::Bytes => libcall::sign_bytes(c.alg, &cur, &msg, Cb::Accept, if step % 2 == 1 { Some(&mut aux0) } else if step % 4 == 2 { aux_foreign.as_mut() } else { None }),
                            SignEntry::TrySignAux => libcall::sign_key(c.alg, &cur, &msg, SignEntry::TrySignAux, Some(&mut aux0)),
                            e => libcall::sign_key(c.alg, &cur, &msg, e, None),
                        },
                        msg,
                        entry,
                    ),
                };
                let next = match entry {
                    SignEntry::Bytes => rec.cb_args.first().cloned(),
                    _ => rec.key_after.clone(),
                };
                match rec.result {
                    Out::Ok(sig) => hook(w, &Release { case: &c, vk: &kp.vk, blob: &cur, counter, msg: &msg, sig: &sig, entry, next: next.as_deref() }),
                    other => {
                        w.report.violation(
                            &format!("{prop}:sign_failed:{}:{}", c.alg.name(), model::params::levels_to_string(&c.levels)),
                            &format!("sign failed on a live key at counter {counter} of a walk: {}", other.describe()),
                            shared::replay_doc(prop, c.alg, &c.levels, &c.seed, counter, &msg),
                        );
                        break;
                    }
                }
                match next {
                    Some(n) => blob = n,
                    None => break,
                }
            }
            w.report.count("walks", 1);
            w.report.count("walked_signatures", *count as i128);
        }
    }
}

pub fn boundary_counters(lv: &[Level]) -> Vec<u64> {
    let total = hss::total_leaves(lv) as u64;
    let mut s: BTreeSet<u64> = BTreeSet::new();
    s.insert(0);
    s.insert(1.min(total - 1));
    s.insert(total - 1);
    if lv.len() > 1 {
        let bottom = 1u64 << lv[lv.len() - 1].h;
        s.insert(bottom - 1);
        s.insert(bottom);
        // last leaf before, and first leaf after, a roll-over of every upper level
        let mut span = 1u64;
        for i in (1..lv.len()).rev() {
            span <<= lv[i].h;
            if span < total {
                s.insert(span - 1);
                s.insert(span);
                let k = (total / span).saturating_sub(1).max(1);
                s.insert(k * span - 1);
                s.insert((k * span).min(total - 1));
            }
        }
    }
    s.into_iter().collect()
}

pub fn build_cases(ctx: &Ctx, rng: &mut Rng) -> Vec<Case> {
    let mut cases = Vec::new();
    let push = |alg: Alg, lv: Vec<Level>, plan: Plan, rng: &mut Rng, cases: &mut Vec<Case>| {
        let tag = format!("{}", cases.len() + 1);
        cases.push(Case { alg, levels: lv, seed: rng.bytes(alg.n()), plan, tag });
    };
    for alg in model::ALL_ALGS {
        // single level: every W at H2 and H5, boundary counters
        for h in [2u32, 5] {
            for &wv in &WS {
                let lv = vec![Level { h, w: wv }];
                let pts = boundary_counters(&lv);
                push(alg, lv, Plan::Points(pts), rng, &mut cases);
            }
        }
        // every level count 2..8, mixed parameters; at least one list with W8 on a short hash
        for len in 2..=8usize {
            for rep in 0..ctx.size(1, 3) {
                let mut lv = random_levels(rng, alg, len, &[2, 2, 2, 5], if ctx.quick() { 2.5e6 } else { 1.0e7 });
                if rep == 0 {
                    lv[len - 1].w = 8;
                }
                let pts = boundary_counters(&lv);
                push(alg, lv, Plan::Points(pts), rng, &mut cases);
            }
        }
        // an all-H2 8-level key, and an H10 level
        push(alg, (0..8).map(|i| Level { h: 2, w: WS[i % 4] }).collect(), Plan::Points(vec![0, 1, 3, 4, 65535, 16383, 16384]), rng, &mut cases);
        // the longest signatures there are: W1 on all 8 levels (> 65535 bytes for the 32-byte hashes)
        push(alg, (0..8).map(|_| Level { h: 2, w: 1 }).collect(), Plan::Points(vec![0, 21845, 65535]), rng, &mut cases);
        push(alg, (0..7).map(|_| Level { h: 2, w: 1 }).collect(), Plan::Points(vec![5, 16383]), rng, &mut cases);
        let h10 = if alg.is_shake() && ctx.quick() { levels(&[(5, 4), (10, 4)]) } else { levels(&[(5, 8), (10, 8)]) };
        push(alg, h10, Plan::Points(vec![0, 1023, 1024, 32767]), rng, &mut cases);
        if !ctx.quick() {
            push(alg, levels(&[(10, 4), (5, 8)]), Plan::Points(vec![0, 31, 32, 32767]), rng, &mut cases);
            push(alg, levels(&[(10, 8)]), Plan::Points(vec![0, 1, 511, 512, 1023]), rng, &mut cases);
        }
        // complete lifetime walks through the callback chain
        let walks: Vec<Vec<(u32, u32)>> = vec![
            vec![(2, 4), (2, 8)],
            vec![(2, 8), (2, 1), (2, 4)],
            vec![(2, 2), (5, 8)],
            vec![(5, 4), (2, 8)],
            vec![(2, 8), (2, 4), (2, 2), (2, 8)],
        ];
        for spec in walks {
            let mut lv = levels(&spec);
            if alg.is_shake() && ctx.quick() {
                for l in lv.iter_mut() {
                    if l.h == 5 {
                        l.w = 2;
                    }
                }
            }
            let total = hss::total_leaves(&lv) as u64;
            push(alg, lv, Plan::Walk { from: 0, count: total }, rng, &mut cases);
        }
    }
    // keys that share one seed but differ below the top level (and at the top level): anything
    // the library remembers per seed or per tree identifier instead of per full input shows here
    for alg in model::ALL_ALGS {
        let shared_seed = rng.bytes(alg.n());
        for spec in [vec![(2u32, 4u32), (2, 4)], vec![(2, 4), (2, 8)], vec![(2, 4), (5, 4)], vec![(2, 8), (2, 4)], vec![(2, 4), (2, 4), (2, 2)], vec![(2, 4)]] {
            let tag = format!("{}", cases.len() + 1);
            cases.push(Case { alg, levels: levels(&spec), seed: shared_seed.clone(), plan: Plan::Points(vec![0, 5]), tag });
        }
    }
    // tall trees: H15 end to end (quick: three hashes, one point each), thorough also H15 inside
    // multi-level keys and one H20 tree; H25 is out of reach for any execution-based check
    let tall: Vec<(Alg, Vec<(u32, u32)>, Vec<u64>)> = if ctx.quick() {
        vec![
            (Alg::Sha256_256, vec![(15, 4)], vec![32767]),
            (Alg::Sha256_128, vec![(15, 2)], vec![12345]),
            (Alg::Shake256_128, vec![(15, 1)], vec![0]),
        ]
    } else {
        let mut v = vec![];
        for alg in model::ALL_ALGS {
            let w = if alg.is_shake() { 2 } else { 4 };
            v.push((alg, vec![(15, w)], vec![0, 16384, 32767]));
            v.push((alg, vec![(15, w), (2, 8)], vec![4 * 32767 + 3, 65536]));
            v.push((alg, vec![(2, 8), (15, w)], vec![32767, 32768]));
        }
        v.push((Alg::Sha256_128, vec![(20, 2)], vec![1048575]));
        v.push((Alg::Sha256_256, vec![(20, 1)], vec![524288]));
        v
    };
    for (alg, spec, pts) in tall {
        push(alg, levels(&spec), Plan::Points(pts), rng, &mut cases);
    }
    // bigger walks, split into contiguous ranges so that they parallelise
    let big: Vec<(Alg, Vec<(u32, u32)>, u64)> = if ctx.quick() {
        vec![(Alg::Sha256_256, vec![(5, 4), (5, 4)], 8), (Alg::Sha256_192, vec![(5, 2), (5, 8)], 8)]
    } else {
        let mut v = vec![];
        for alg in model::ALL_ALGS {
            v.push((alg, vec![(5, 4), (5, 8)], 8));
            v.push((alg, (0..8).map(|i| (2u32, WS[(i + 1) % 4])).collect(), 32));
        }
        v
    };
    for (alg, spec, parts) in big {
        let lv = levels(&spec);
        let total = hss::total_leaves(&lv) as u64;
        let seed = rng.bytes(alg.n());
        let per = total / parts;
        for p in 0..parts {
            let id = cases.len() + 1;
            cases.push(Case {
                alg,
                levels: lv.clone(),
                seed: seed.clone(),
                plan: Plan::Walk { from: p * per, count: if p + 1 == parts { total - p * per } else { per } },
                tag: format!("{id}"),
            });
        }
    }
    if let Some((nlev, hs, ws)) = crate::common::build_limits() {
        // a build with reduced limits (stage `constrained`): only the lists it supports, plus
        // the lists that use every level's limit to the full (largest height that is still
        // affordable, smallest allowed W) and a few random ones inside the limits
        cases.retain(|c| crate::common::in_build_limits(&c.levels));
        for alg in model::ALL_ALGS {
            for len in 1..=nlev.min(8) {
                let cap = |h: u32| if h >= 10 && !alg.is_shake() { 10 } else if h >= 5 { 5 } else { 2 };
                let mut full: Vec<Level> = (0..len).map(|i| Level { h: cap(hs[i]), w: ws[i] }).collect();
                // keep signing affordable: at most one H10 level, and not with W8 on it
                let mut tens = 0;
                for l in full.iter_mut() {
                    if l.h == 10 {
                        tens += 1;
                        if tens > 1 || l.w == 8 {
                            l.h = 5;
                        }
                    }
                }
                let pts = boundary_counters(&full);
                push(alg, full, Plan::Points(pts), rng, &mut cases);
                let rnd: Vec<Level> = (0..len)
                    .map(|i| {
                        let hh: Vec<u32> = [2u32, 5].iter().copied().filter(|h| *h <= hs[i]).collect();
                        let ww: Vec<u32> = WS.iter().copied().filter(|w| *w >= ws[i]).collect();
                        Level { h: *rng.pick(&hh), w: *rng.pick(&ww) }
                    })
                    .collect();
                let pts = boundary_counters(&rnd);
                push(alg, rnd, Plan::Points(pts), rng, &mut cases);
            }
        }
    }
    if !ctx.quick() {
        // roll-over windows of keys with an H10 level
        for alg in model::ALL_ALGS {
            for (spec, starts) in [
                (vec![(5u32, 8u32), (10, 8)], vec![1020u64, 2044, 32764]),
                (vec![(10, 8), (5, 4)], vec![28, 60, 32764]),
            ] {
                let lv = levels(&spec);
                for s in starts {
                    push(alg, lv.clone(), Plan::Walk { from: s, count: 4.min(hss::total_leaves(&lv) as u64 - s) }, rng, &mut cases);
                }
            }
        }
    }
    cases
}

pub fn case_cost(c: &Case) -> f64 {
    shared::sign_cost(c.alg, &c.levels)
        * match &c.plan {
            Plan::Points(p) => p.len() as f64 * 3.0,
            Plan::Walk { count, .. } => *count as f64,
        }
}

pub fn sort_and_report_cost(cases: &mut [Case]) {
    cases.sort_by(|a, b| case_cost(b).partial_cmp(&case_cost(a)).unwrap());
    if std::env::var("VERIF_DEBUG").is_ok() {
        let total: f64 = cases.iter().map(case_cost).sum();
        eprintln!("estimated cost: {:.1} G hash units total", total / 1e9);
        for c in cases.iter().take(8) {
            eprintln!("  {:.2} G  {} {}", case_cost(c) / 1e9, c.alg.name(), model::params::levels_to_string(&c.levels));
        }
    }
}

pub fn run(ctx: &Ctx) -> Report {
    let mut rng = ctx.rng("c01");
    let mut cases = build_cases(ctx, &mut rng);
    // expensive first
    sort_and_report_cost(&mut cases);
    let n_cases = cases.len();
    let mut rep = par_run(ctx, cases, |c, w| run_case("C01", c, w, ctx, &c01_hook));
    rep.count("keys", n_cases as i128);
    rep.rule = "every released signature is verified through hbs_lms::verify, VerifyingKey+Signature and VerifyingKey+VerifierSignature; \
                cases = (hash, parameter list, counter, message) from a grid (6 hashes x W x H2/H5 single level, mixed 2..8-level lists, H10 levels, H15 trees (thorough: also inside multi-level keys, and H20)) at \
                boundary counters (0, 1, around every subtree roll-over, last) plus complete lifetime walks through the callback chain alternating the three signing entry points, with and without the aux buffer that key generation filled (sized to cache the whole top tree, up to 2 MiB), and with the aux buffer of another key of the same shape; \
                distinct_nontrivial = distinct (hash, parameter list, counter, message-length class) with >1 level or counter>0 or (n,W) outside SHA-256/32 W1/W2"
        .into();
    // every upper level must have rolled over at least once per hash
    let depth = crate::common::build_limits().map(|(n, _, _)| n.saturating_sub(1).min(3)).unwrap_or(3);
    for alg in model::ALL_ALGS {
        for l in 0..depth {
            if rep.counter(&format!("rollovers_crossed_level{}_{}", l, alg.name())) == 0 {
                rep.inconclusive(&format!("no roll-over of level {l} observed for {}", alg.name()));
            }
        }
    }
    if cfg!(feature = "fv") {
        rep.rule.push_str(" ; this build has the library's fast_verify feature: every boundary state and every fourth step of a walk is additionally signed through hbs_lms::sign_mut (the signature is checked for the message as the call left it)");
        if rep.counter("sign_mut_releases") == 0 {
            rep.inconclusive("no sign_mut release observed in a fast_verify build");
        }
    }
    if rep.counter("released_signatures") < if crate::common::build_limits().is_some() { 50 } else { 1000 } {
        rep.inconclusive("fewer than 1000 released signatures observed");
    }
    shared::add_assumptions(&mut rep);
    rep
}
