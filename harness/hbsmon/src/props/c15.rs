//! C15: fast-verify signing yields ordinary valid signatures, touching only the trailer.
//!
//! This driver only exists in builds with the cargo feature `fv` (library features fast_verify +
//! verbose); the C15 stage builds it once per HBS_LMS_THREADS x HBS_LMS_MAX_HASH_OPTIMIZATIONS
//! setting (natively, under ThreadSanitizer and under Miri) and merges the reports.
//!
//! Refuted by: sign_mut returning a signature the ordinary verifier (library and model) rejects
//! for the returned message; any byte outside the last n changed; callback protocol broken or
//! counter not advanced by exactly one; Ok / a callback / a changed message when the message is
//! <= n bytes or a trailer byte is non-zero; a panic; unbounded work (a call that does not return
//! while burning CPU far beyond its bounded trial budget).

use std::collections::BTreeSet;
use std::sync::atomic::{AtomicBool, Ordering};
use std::sync::mpsc;
use std::time::{Duration, Instant};

use model::hss;
use model::lmots;
use model::params;
use model::{Alg, Level, Report, J};

use crate::common::{lcfg, levels, Ctx};
use crate::libcall::{self, Cb, Out, SignRec};
use crate::props::c04::expected_successor;

fn config_name() -> String {
    std::env::var("VERIF_C15_CONFIG").unwrap_or_else(|_| "default".into())
}

fn process_cpu_seconds() -> f64 {
    // utime + stime of this process from /proc (clock ticks, 100 Hz)
    if let Ok(s) = std::fs::read_to_string("/proc/self/stat") {
        if let Some(rest) = s.rsplit(')').next() {
            let f: Vec<&str> = rest.split_whitespace().collect();
            if f.len() > 13 {
                let ut: f64 = f[11].parse().unwrap_or(0.0);
                let st: f64 = f[12].parse().unwrap_or(0.0);
                return (ut + st) / 100.0;
            }
        }
    }
    0.0
}

/// sum of all chain positions of all LM-OTS signatures in an HSS signature (what the library
/// reports as hash_iterations with the verbose feature)
fn model_hash_iterations(alg: Alg, msg: &[u8], sig: &[u8], pk: &[u8]) -> Option<u32> {
    let cfg = lcfg(alg);
    let n = alg.n();
    let lay = hss::parse_sig(&cfg, sig)?;
    let mut i_tree = [0u8; 16];
    i_tree.copy_from_slice(&pk[12..28]);
    let mut total = 0u32;
    for (lvl, s) in lay.sigs.iter().enumerate() {
        let content: &[u8] = if lvl < lay.pubs.len() { let (po, pl) = lay.pubs[lvl]; &sig[po..po + pl] } else { msg };
        let q = u32::from_be_bytes(sig[s.off_q..s.off_q + 4].try_into().unwrap());
        let c = &sig[s.off_c..s.off_c + n];
        let o = params::ots(&cfg, s.ots_code)?;
        let qd = lmots::message_digest(&cfg, &i_tree, q, c, content);
        total += lmots::digits(&o, &qd).iter().sum::<u32>();
        if lvl < lay.pubs.len() {
            let (po, _) = lay.pubs[lvl];
            i_tree.copy_from_slice(&sig[po + 8..po + 24]);
        }
    }
    Some(total)
}

enum Call {
    Done(SignRec, Option<u32>, Vec<u8>, f64),
    Stuck(f64),
}

/// run sign_mut on a helper thread; a call that has not returned after burning far more CPU than
/// any completed call is reported as stuck (decided on consumed CPU time, not wall-clock time)
fn call_sign_mut(alg: Alg, blob: &[u8], msg: &[u8], script: Cb, max_cpu_seen: f64, miri: bool, hogs: usize) -> Call {
    if miri {
        let mut m = msg.to_vec();
        let (rec, it) = libcall::sign_mut(alg, blob, &mut m, script);
        return Call::Done(rec, it, m, 0.0);
    }
    let (tx, rx) = mpsc::channel();
    let blob = blob.to_vec();
    let mut m = msg.to_vec();
    let cpu0 = process_cpu_seconds();
    std::thread::Builder::new()
        .stack_size(crate::common::STACK)
        .spawn(move || {
            let (rec, it) = libcall::sign_mut(alg, &blob, &mut m, script);
            let _ = tx.send((rec, it, m));
        })
        .expect("spawn");
    let t0 = Instant::now();
    loop {
        match rx.recv_timeout(Duration::from_millis(500)) {
            Ok((rec, it, m)) => {
                let burnt = process_cpu_seconds() - cpu0 - hogs as f64 * t0.elapsed().as_secs_f64();
                return Call::Done(rec, it, m, burnt.max(0.0));
            }
            Err(mpsc::RecvTimeoutError::Timeout) => {
                // CPU time of this process without what the hog threads can have used
                let burnt = process_cpu_seconds() - cpu0 - hogs as f64 * t0.elapsed().as_secs_f64();
                let limit = (max_cpu_seen * 200.0).max(120.0);
                if burnt > limit {
                    return Call::Stuck(burnt);
                }
                if t0.elapsed() > Duration::from_secs(3600) {
                    return Call::Stuck(-1.0);
                }
            }
            Err(mpsc::RecvTimeoutError::Disconnected) => {
                // the helper thread died without sending (cannot happen: panics are caught inside)
                return Call::Stuck(-2.0);
            }
        }
    }
}

fn overlap_pattern(events: &[(u8, u64)]) -> String {
    // canonical form: threads renamed in order of first appearance; S = start, E = end
    let mut names: Vec<u64> = Vec::new();
    let mut s = String::new();
    for (kind, id) in events {
        let idx = match names.iter().position(|x| x == id) {
            Some(i) => i,
            None => {
                names.push(*id);
                names.len() - 1
            }
        };
        s.push(if *kind == 0 { 'S' } else { 'E' });
        s.push_str(&idx.to_string());
    }
    s
}

pub fn run(ctx: &Ctx) -> Report {
    let cfgname = config_name();
    let miri = std::env::var("VERIF_MIRI").is_ok();
    let sanitizer = std::env::var("VERIF_SANITIZER").is_ok();
    let mut r = Report::new();
    let mut rng = ctx.rng(&format!("c15-{cfgname}"));
    let mut patterns: BTreeSet<String> = BTreeSet::new();
    let mut max_cpu = 0.05f64;
    let stop_hogs = std::sync::Arc::new(AtomicBool::new(false));
    let mut hog_handles = Vec::new();
    // the order of (hash, W) is part of the input: anything a call leaves behind in the process
    // (caches, statics) meets a different successor under every seed and configuration
    let mut algs: Vec<Alg> = if miri { vec![Alg::Sha256_128] } else { model::ALL_ALGS.to_vec() };
    let mut ws: Vec<u32> = if miri { vec![1] } else { vec![1, 2, 4, 8] };
    if !miri {
        let ra = rng.range(0, algs.len());
        algs.rotate_left(ra);
        if rng.chance(1, 2) {
            algs.reverse();
        }
        let rw = rng.range(0, ws.len());
        ws.rotate_left(rw);
        if rng.chance(1, 2) {
            ws.reverse();
        }
    }
    let mut case_no = 0usize;
    'outer: for (ai, alg) in algs.iter().enumerate() {
        let alg = *alg;
        let n = alg.n();
        let cfg = lcfg(alg);
        for &wv in &ws {
            // half way through, perturb the scheduler with CPU hogs
            if !miri && !sanitizer && ai == 3 && wv == 1 && hog_handles.is_empty() {
                for _ in 0..(ctx.threads / 2).max(1) {
                    let stop = stop_hogs.clone();
                    hog_handles.push(std::thread::spawn(move || {
                        let mut x = 1u64;
                        while !stop.load(Ordering::Relaxed) {
                            for _ in 0..100_000 {
                                x = x.wrapping_mul(6364136223846793005).wrapping_add(1442695040888963407);
                            }
                            std::hint::black_box(x);
                        }
                    }));
                }
                r.count("cpu_hog_threads", (ctx.threads / 2).max(1) as i128);
            }
            let shapes: Vec<Vec<Level>> = if miri { vec![vec![Level { h: 2, w: wv }]] } else { vec![vec![Level { h: 2, w: wv }], levels(&[(2, 8), (2, wv)])] };
            for lv in shapes {
                let seed = rng.bytes(n);
                let lvs = params::levels_to_string(&lv);
                // the public key: from keygen natively, not needed under Miri (no verification there)
                let vk = if miri {
                    Vec::new()
                } else {
                    match libcall::keygen(alg, &lv, &seed, None) {
                        Out::Ok(k) => k.vk,
                        other => {
                            r.violation(&format!("C15:{cfgname}:keygen:{}", alg.name()), &format!("keygen failed: {}", other.describe()), J::Null);
                            continue;
                        }
                    }
                };
                let total = hss::total_leaves(&lv) as u64;
                // lengths around the 16-bit boundary as well (a length kept in a u16 wraps there)
                let lens: Vec<usize> = if miri { vec![n + 3] } else { vec![n + 1, n + 2, 100, 4096, 65535, 65536, 65536 + n, 2 * 65536 + 1] };
                let reps = if miri { 1 } else { ctx.size(2, 10) };
                for (li, &len) in lens.iter().enumerate() {
                    for rep in 0..reps {
                        case_no += 1;
                        let counter = (li as u64 * 5 + rep as u64) % total;
                        let blob = hss::make_blob(counter, &lv, &seed);
                        let mut msg = rng.bytes(len);
                        for b in msg[len - n..].iter_mut() {
                            *b = 0;
                        }
                        let script = if (li + rep) % 4 == 3 { Cb::Refuse } else { Cb::Accept };
                        let _ = hbs_lms::verif_hooks::fv::drain();
                        let call = call_sign_mut(alg, &blob, &msg, script, max_cpu, miri, hog_handles.len());
                        r.eval();
                        let replay = || {
                            J::obj()
                                .with("property", J::s("C15"))
                                .with("build", J::s(&cfgname))
                                .with("hash", J::s(alg.name()))
                                .with("levels", J::s(&lvs))
                                .with("seed", J::hex(&seed))
                                .with("counter", J::Int(counter as i128))
                                .with("message_len", J::u(len))
                                .with("message", J::hexa(&msg))
                        };
                        let (rec, iters, out_msg, cpu) = match call {
                            Call::Done(a, b, c, d) => (a, b, c, d),
                            Call::Stuck(burnt) => {
                                r.violation(
                                    &format!("C15:{cfgname}:does_not_return"),
                                    &format!("sign_mut did not return: {burnt:.0} CPU-seconds burnt in one call whose work is bounded by MAX_HASH_OPTIMIZATIONS trials (largest completed call: {max_cpu:.2} CPU-s)"),
                                    replay(),
                                );
                                break 'outer;
                            }
                        };
                        if cpu > max_cpu {
                            max_cpu = cpu;
                        }
                        let ev = hbs_lms::verif_hooks::fv::drain();
                        if !ev.is_empty() {
                            patterns.insert(overlap_pattern(&ev));
                            r.count("worker_events", ev.len() as i128);
                        }
                        r.count(&format!("sign_mut_{}", rec.result.kind()), 1);
                        let key = |what: &str| format!("C15:{cfgname}:{what}:{}:w={wv}", alg.name());
                        match &rec.result {
                            Out::Ok(sig) => {
                                if script == Cb::Refuse {
                                    r.violation(&key("released_after_refusal"), "signature returned although the update callback refused", replay());
                                }
                                if out_msg.len() != msg.len() || out_msg[..len - n] != msg[..len - n] {
                                    r.violation(&key("body_modified"), "sign_mut changed message bytes outside the last n", replay().with("returned_message", J::hexa(&out_msg)));
                                }
                                if rec.cb_args.len() != 1 || Some(&rec.cb_args[0]) != expected_successor(&cfg, &blob).as_ref() {
                                    r.violation(&key("callback_protocol"), &format!("{} callback invocation(s); argument is {}the successor key", rec.cb_args.len(), if rec.cb_args.first() == expected_successor(&cfg, &blob).as_ref() { "" } else { "NOT " }), replay());
                                }
                                if !miri {
                                    let v = libcall::verify(alg, &out_msg, sig, &vk, libcall::VerifyEntry::Bytes);
                                    if !v.is_ok() {
                                        r.violation(&key("invalid_signature"), &format!("the ordinary verifier rejects the fast-verify signature for the returned message: {}", v.describe()), replay().with("returned_message", J::hexa(&out_msg)));
                                    }
                                    if !hss::verify(&cfg, &out_msg, sig, &vk) {
                                        r.violation(&key("model_rejects"), "the independent RFC 8554 verifier rejects the fast-verify signature", replay());
                                    }
                                    // ordinary verification of the ORIGINAL message must fail unless the trailer stayed zero
                                    if out_msg != msg && libcall::verify(alg, &msg, sig, &vk, libcall::VerifyEntry::Bytes).is_ok() {
                                        r.violation(&key("signature_not_bound_to_trailer"), "the signature also verifies for the message with the zero trailer", replay());
                                    }
                                    match (iters, model_hash_iterations(alg, &out_msg, sig, &vk)) {
                                        (Some(a), Some(b)) if a != b => r.violation(&key("hash_iterations"), &format!("Signature::hash_iterations = {a}, digit sums of the released signature = {b}"), replay()),
                                        _ => {}
                                    }
                                    if out_msg[len - n..].iter().all(|b| *b == 0) {
                                        r.count("trailer_left_zero", 1);
                                    }
                                }
                                r.count("released", 1);
                            }
                            Out::Err => {
                                // whatever the reason for the refusal: nothing but the last n bytes may have been touched
                                if out_msg.len() != msg.len() || out_msg[..len - n] != msg[..len - n] {
                                    r.violation(&key("body_modified_on_error"), "a failing sign_mut call changed message bytes outside the last n", replay().with("returned_message", J::hexa(&out_msg)));
                                }
                                if script == Cb::Accept {
                                    r.violation(&key("refused_valid_request"), "sign_mut failed for a message with a zero trailer on a live key", replay());
                                }
                                if script == Cb::Refuse && rec.cb_args.len() != 1 {
                                    r.violation(&key("callback_protocol"), "refusing callback was not consulted exactly once", replay());
                                }
                            }
                            Out::Panic(p) => r.violation(&format!("C15:{cfgname}:panic:{}:{}", p.site(), alg.name()), &format!("sign_mut panicked: {} at {}", p.message, p.site()), replay()),
                        }
                        r.distinct(&format!("{cfgname}|{}|{}|{}|{:?}", alg.name(), lvs, len, script));
                        if r.samples.len() < 4 && case_no % 13 == 1 {
                            r.sample(replay().with("result", J::s(&rec.result.describe())).with("returned_trailer", J::hex(&out_msg[len.saturating_sub(n)..])).with("hash_iterations", J::Int(iters.unwrap_or(0) as i128)));
                        }
                    }
                }
                // a refusing storage layer with the shortest valid buffers (total length n+1 .. n+3):
                // the failure path must not touch, or index, anything in front of the trailer
                if !miri {
                    for extra in 1..=3usize {
                        let blob = hss::make_blob(0, &lv, &seed);
                        let mut m = rng.bytes(extra);
                        m.extend(std::iter::repeat(0u8).take(n));
                        let orig = m.clone();
                        let (rec, _) = libcall::sign_mut(alg, &blob, &mut m, Cb::Refuse);
                        r.eval();
                        match &rec.result {
                            Out::Panic(p) => r.violation(&format!("C15:{cfgname}:panic:{}:{}", p.site(), alg.name()), &format!("sign_mut with a refusing callback and a {}-byte buffer panicked: {} at {}", extra + n, p.message, p.site()), J::obj().with("hash", J::s(alg.name())).with("message", J::hex(&orig))),
                            Out::Ok(_) => r.violation(&format!("C15:{cfgname}:released_after_refusal:{}:w={wv}", alg.name()), "signature returned although the update callback refused", J::obj().with("hash", J::s(alg.name())).with("message", J::hex(&orig))),
                            Out::Err => {
                                if m[..extra] != orig[..extra] {
                                    r.violation(&format!("C15:{cfgname}:body_modified_on_error:{}:w={wv}", alg.name()), "a failing sign_mut call changed message bytes outside the last n", J::obj().with("hash", J::s(alg.name())).with("message", J::hex(&orig)).with("returned_message", J::hex(&m)));
                                }
                            }
                        }
                        r.count("refused_short_buffers", 1);
                    }
                }
                // refusals: too short, non-zero trailer
                let blob = hss::make_blob(1 % total, &lv, &seed);
                let mut bad: Vec<(String, Vec<u8>)> = Vec::new();
                for len in [0usize, 1, n - 1, n] {
                    bad.push((format!("too-short:{len}"), vec![0u8; len]));
                }
                let positions: Vec<usize> = if miri { vec![0, n - 1] } else { (0..n).collect() };
                for pos in positions {
                    let mut m = rng.bytes(n + 40);
                    for b in m[40..].iter_mut() {
                        *b = 0;
                    }
                    m[40 + pos] = if pos % 3 == 0 { 0xff } else { 1 << (pos % 8) };
                    bad.push((format!("trailer-byte:{pos}"), m));
                }
                if miri {
                    bad.truncate(3);
                }
                for (what, m) in bad {
                    let mut mm = m.clone();
                    let (rec, _) = libcall::sign_mut(alg, &blob, &mut mm, Cb::Accept);
                    r.eval();
                    r.count("refusal_cases", 1);
                    let cls = what.split(':').next().unwrap().to_string();
                    let doc = || J::obj().with("property", J::s("C15")).with("build", J::s(&cfgname)).with("hash", J::s(alg.name())).with("levels", J::s(&lvs)).with("seed", J::hex(&seed)).with("case", J::s(&what)).with("message", J::hex(&m));
                    match &rec.result {
                        Out::Err => {}
                        Out::Ok(_) => r.violation(&format!("C15:{cfgname}:accepted_{cls}:{}", alg.name()), &format!("sign_mut accepted a message it must refuse ({what})"), doc()),
                        Out::Panic(p) => r.violation(&format!("C15:{cfgname}:panic:{}:{}", p.site(), alg.name()), &format!("sign_mut panicked on a {what} message: {}", p.message), doc()),
                    }
                    if !rec.cb_args.is_empty() {
                        r.violation(&format!("C15:{cfgname}:leaf_consumed_on_refusal:{cls}:{}", alg.name()), &format!("update callback invoked for a message that must be refused ({what})"), doc());
                    }
                    if mm != m {
                        r.violation(&format!("C15:{cfgname}:message_changed_on_refusal:{cls}:{}", alg.name()), &format!("message modified although the request was refused ({what})"), doc());
                    }
                    r.distinct(&format!("{cfgname}|{}|{}|{}", alg.name(), lvs, what));
                }
            }
        }
    }
    stop_hogs.store(true, Ordering::Relaxed);
    for h in hog_handles {
        let _ = h.join();
    }
    r.count("distinct_worker_overlap_patterns", patterns.len() as i128);
    r.extra.insert("worker_overlap_patterns".into(), J::Arr(patterns.iter().take(40).map(|p| J::s(p)).collect()));
    r.extra.insert("build".into(), J::s(&cfgname));
    r.set_max("max_cpu_seconds_of_one_call_x1000", (max_cpu * 1000.0) as i128);
    r.rule = "per build (HBS_LMS_THREADS x HBS_LMS_MAX_HASH_OPTIMIZATIONS): all 6 hashes x W1..W8 x {1-level, 2-level key} x message lengths {n+1, n+2, 100, 4096} x callback {accept, refuse}: the returned signature must verify (library and independent verifier) for the returned message, only the last n bytes may differ, exactly one callback with the successor key, hash_iterations = digit sums; messages of length 0, 1, n-1, n and every single non-zero trailer byte position must be refused without callback and without touching the message; every call runs on a helper thread and is declared stuck only on consumed CPU time (200x the largest completed call, at least 120 CPU-s); CPU hogs perturb scheduling for half of the run; the fast-verify workers' start/end events (hook) give the overlap patterns observed; \
              distinct_nontrivial = distinct (build, hash, key shape, message length or refusal case, callback outcome)"
        .into();
    if r.counter("released") == 0 && !r.violations.iter().any(|v| v.key.contains("does_not_return")) {
        r.inconclusive("no fast-verify signature was released");
    }
    crate::props::shared::add_assumptions(&mut r);
    r
}
