//! C09: key generation and signing are pure functions of their inputs.
//!
//! Oracle: byte equality with a baseline computed in a FRESH PROCESS (new address-space layout,
//! scrubbed environment).  The same inputs are then re-evaluated in other contexts: a second
//! fresh process with a noisy environment, the same thread twice, after unrelated operations
//! (other hashes and keys, failing calls, caught panics, aux in use), on 16 threads hammering
//! other keys at the same time (with an overlap table as evidence that calls really overlapped),
//! through the in-memory SigningKey vs the byte-level function, and with a key object that stays
//! in memory over a complete lifetime vs a key reloaded from its bytes before every signature.

use std::collections::BTreeSet;
use std::io::{BufRead, Write};
use std::process::{Command, Stdio};
use std::sync::atomic::{AtomicU64, AtomicUsize, Ordering};
use std::sync::Mutex;

use hbs_lms::signature::SignerMut;
use model::hss;
use model::json::{hex, unhex};
use model::{Alg, Level, Report, Rng, J};

use crate::common::{levels, par_run, Ctx, Worker};
use crate::libcall::{self, guard, AuxBuf, Cb, Out, SignEntry};
use crate::with_hash;

#[derive(Clone)]
struct Case {
    alg: Alg,
    levels: Vec<Level>,
    seed: Vec<u8>,
    counter: u64,
    msg: Vec<u8>,
}

#[derive(Clone, PartialEq, Eq, Debug)]
struct Res {
    sk: String,
    vk: String,
    sig: String,
    next: String,
}

fn fmt_levels(lv: &[Level]) -> String {
    lv.iter().map(|l| format!("{}/{}", l.h, l.w)).collect::<Vec<_>>().join(",")
}

fn case_line(c: &Case) -> String {
    format!("{} {} {} {} {}", c.alg.name(), fmt_levels(&c.levels), hex(&c.seed), c.counter, if c.msg.is_empty() { "-".into() } else { hex(&c.msg) })
}

fn parse_case(line: &str) -> Option<Case> {
    let f: Vec<&str> = line.split_whitespace().collect();
    if f.len() < 5 {
        return None;
    }
    Some(Case {
        alg: Alg::from_name(f[0])?,
        levels: f[1].split(',').map(|p| { let mut it = p.split('/'); Level { h: it.next().unwrap().parse().unwrap(), w: it.next().unwrap().parse().unwrap() } }).collect(),
        seed: unhex(f[2])?,
        counter: f[3].parse().ok()?,
        msg: if f[4] == "-" { vec![] } else { unhex(f[4])? },
    })
}

fn evaluate(c: &Case, entry: SignEntry, aux: Option<&mut AuxBuf>) -> Res {
    let kg = libcall::keygen(c.alg, &c.levels, &c.seed, None);
    let (sk, vk) = match &kg {
        Out::Ok(k) => (hex(&k.sk), hex(&k.vk)),
        other => (other.describe(), other.describe()),
    };
    let blob = hss::make_blob(c.counter, &c.levels, &c.seed);
    let rec = match entry {
        SignEntry::Bytes => libcall::sign_bytes(c.alg, &blob, &c.msg, Cb::Accept, aux),
        e => libcall::sign_key(c.alg, &blob, &c.msg, e, aux),
    };
    let next = match entry {
        SignEntry::Bytes => rec.cb_args.first().map(|b| hex(b)),
        _ => rec.key_after.as_ref().map(|b| hex(b)),
    };
    Res {
        sk,
        vk,
        sig: match &rec.result {
            Out::Ok(s) => hex(&model::alg::sha256(&[s])),
            other => other.describe(),
        },
        next: next.unwrap_or_else(|| "-".into()),
    }
}

/// process role: read cases, print results
pub fn worker() {
    let stdin = std::io::stdin();
    let out = std::io::stdout();
    let mut out = out.lock();
    for line in stdin.lock().lines() {
        let line = line.unwrap();
        if let Some(c) = parse_case(&line) {
            let r = evaluate(&c, SignEntry::Bytes, None);
            writeln!(out, "{} {} {} {}", r.sk, r.vk, r.sig, r.next).unwrap();
        }
    }
}

fn run_worker_process(cases: &[Case], noisy: bool) -> Result<Vec<Res>, String> {
    let exe = std::env::current_exe().map_err(|e| e.to_string())?;
    let mut cmd = Command::new(exe);
    cmd.arg("c09-worker").env_clear().stdin(Stdio::piped()).stdout(Stdio::piped()).stderr(Stdio::null());
    if noisy {
        for i in 0..200 {
            cmd.env(format!("VERIF_NOISE_{i}"), "x".repeat(1 + (i * 37) % 900));
        }
        cmd.env("HBS_LMS_THREADS", "7").env("HBS_LMS_MAX_ALLOWED_HSS_LEVELS", "3").env("RUST_MIN_STACK", "999999999").env("TZ", "Pacific/Kiritimati").env("LANG", "tr_TR.UTF-8");
        cmd.current_dir("/");
    }
    let mut child = cmd.spawn().map_err(|e| e.to_string())?;
    // the cases are fed from a second thread: the worker answers while it is still being fed, and
    // with both pipes full a single-threaded writer-then-reader would block for ever
    let lines: Vec<String> = cases.iter().map(case_line).collect();
    let mut si = child.stdin.take().unwrap();
    let feeder = std::thread::spawn(move || {
        for l in lines {
            if writeln!(si, "{}", l).is_err() {
                break;
            }
        }
    });
    let out = child.wait_with_output().map_err(|e| e.to_string())?;
    let _ = feeder.join();
    if !out.status.success() {
        return Err(format!("worker process exited with {:?}", out.status));
    }
    let text = String::from_utf8_lossy(&out.stdout);
    let res: Vec<Res> = text
        .lines()
        .filter_map(|l| {
            let f: Vec<&str> = l.split_whitespace().collect();
            if f.len() == 4 {
                Some(Res { sk: f[0].into(), vk: f[1].into(), sig: f[2].into(), next: f[3].into() })
            } else {
                None
            }
        })
        .collect();
    if res.len() != cases.len() {
        return Err(format!("worker process returned {} of {} results", res.len(), cases.len()));
    }
    Ok(res)
}

/// Supplementary: the worker process under valgrind memcheck (a third execution platform: its
/// CPUID hides SHA-NI, so the software SHA-2 back end runs).  Results must equal the baseline and
/// no memcheck report may have a frame of the library in its stack.
fn memcheck(ctx: &Ctx, rep: &mut Report, cases: &[Case], base: &[Res]) {
    let exe = match std::env::current_exe() {
        Ok(e) => e,
        Err(_) => return,
    };
    if Command::new("valgrind").arg("--version").stdout(Stdio::null()).stderr(Stdio::null()).status().map(|s| !s.success()).unwrap_or(true) {
        rep.note("valgrind not available: memcheck pass skipped");
        return;
    }
    // the cheapest shapes of every hash
    let mut picked: Vec<usize> = Vec::new();
    for alg in model::ALL_ALGS {
        for want in [levels(&[(2, 8)]), levels(&[(2, 1)]), levels(&[(2, 4), (2, 8)])] {
            if let Some(i) = cases.iter().position(|c| c.alg == alg && c.levels == want) {
                picked.push(i);
            }
        }
    }
    if ctx.quick() {
        picked.truncate(12);
    }
    let log = ctx.scratch.join(format!("memcheck-{}.log", std::process::id()));
    let mut cmd = Command::new("valgrind");
    cmd.args(["--tool=memcheck", "--error-exitcode=0", "--track-origins=yes", "--num-callers=30", "-q"]).arg(format!("--log-file={}", log.display())).arg(exe).arg("c09-worker");
    cmd.env_clear().stdin(Stdio::piped()).stdout(Stdio::piped()).stderr(Stdio::null());
    let mut child = match cmd.spawn() {
        Ok(c) => c,
        Err(e) => {
            rep.note(&format!("memcheck pass could not start: {e}"));
            return;
        }
    };
    let lines: Vec<String> = picked.iter().map(|i| case_line(&cases[*i])).collect();
    let mut si = child.stdin.take().unwrap();
    let feeder = std::thread::spawn(move || {
        for l in lines {
            if writeln!(si, "{}", l).is_err() {
                break;
            }
        }
    });
    let out = match child.wait_with_output() {
        Ok(o) => o,
        Err(e) => {
            rep.note(&format!("memcheck pass failed: {e}"));
            return;
        }
    };
    let _ = feeder.join();
    let text = String::from_utf8_lossy(&out.stdout);
    let lines: Vec<&str> = text.lines().collect();
    if !out.status.success() || lines.len() != picked.len() {
        rep.note(&format!("memcheck pass: worker under valgrind returned {} of {} results (status {:?}); not evaluated", lines.len(), picked.len(), out.status));
        return;
    }
    for (k, i) in picked.iter().enumerate() {
        let f: Vec<&str> = lines[k].split_whitespace().collect();
        if f.len() == 4 {
            let got = Res { sk: f[0].into(), vk: f[1].into(), sig: f[2].into(), next: f[3].into() };
            compare(rep, "process-under-valgrind-memcheck", &cases[*i], &base[*i], &got);
        }
    }
    // memcheck reports: blocks start with "==pid== <Kind>" and list frames "   at/by 0x...: function (file:line)"
    let logtext = std::fs::read_to_string(&log).unwrap_or_default();
    let _ = std::fs::remove_file(&log);
    let mut reports = 0;
    let mut lib_reports = 0;
    let mut cur: Vec<String> = Vec::new();
    let mut flush = |cur: &mut Vec<String>, rep: &mut Report| {
        if cur.is_empty() {
            return;
        }
        let head = cur[0].clone();
        let interesting = ["uninitialised", "Invalid read", "Invalid write", "Invalid free", "Mismatched", "overlap"].iter().any(|k| head.contains(k));
        if interesting {
            reports += 1;
            if let Some(fr) = cur.iter().find(|l| l.contains("hbs_lms")) {
                lib_reports += 1;
                let func = fr.split(": ").nth(1).unwrap_or(fr).split(" (").next().unwrap_or("?").to_string();
                rep.violation(
                    &format!("C09:memcheck:{}:{}", head.split_whitespace().take(4).collect::<Vec<_>>().join("_"), func),
                    &format!("valgrind memcheck: {head} with the library on the stack ({func})"),
                    J::obj().with("report", J::s(&cur.join(" | "))),
                );
            } else {
                rep.note(&format!("memcheck report outside the library (not a verdict): {head}"));
            }
        }
        cur.clear();
    };
    for l in logtext.lines() {
        let body = l.splitn(3, "==").nth(2).unwrap_or("").trim_end().to_string();
        if body.trim().is_empty() {
            flush(&mut cur, rep);
        } else {
            cur.push(body.trim().to_string());
        }
    }
    flush(&mut cur, rep);
    rep.count("memcheck_cases", picked.len() as i128);
    rep.count("memcheck_reports", reports);
    rep.count("memcheck_reports_in_library", lib_reports);
}

fn compare(r: &mut Report, ctxname: &str, c: &Case, base: &Res, got: &Res) {
    r.eval();
    r.count(&format!("comparisons_{ctxname}"), 1);
    for (op, a, b) in [("keygen.private", &base.sk, &got.sk), ("keygen.public", &base.vk, &got.vk), ("sign.signature", &base.sig, &got.sig), ("sign.successor", &base.next, &got.next)] {
        if a != b {
            r.violation(
                &format!("C09:{ctxname}:{op}:{}", c.alg.name()),
                &format!("{op} differs between the fresh-process baseline and the evaluation in context '{ctxname}' for identical inputs: {} vs {}", &a[..a.len().min(64)], &b[..b.len().min(64)]),
                J::obj().with("property", J::s("C09")).with("context", J::s(ctxname)).with("case", J::s(&case_line(c))),
            );
        }
    }
}

/// a key object that stays in memory for `count` signatures
fn walk_in_memory(alg: Alg, blob: &[u8], msgs: &[Vec<u8>]) -> Result<Vec<(Vec<u8>, Vec<u8>)>, crate::libcall::PanicInfo> {
    with_hash!(alg, H, {
        guard(|| {
            let mut out = Vec::new();
            let mut key = match hbs_lms::SigningKey::<H>::from_bytes(blob) {
                Ok(k) => k,
                Err(_) => return out,
            };
            for m in msgs {
                match key.try_sign(m) {
                    Ok(s) => out.push((s.as_ref().to_vec(), key.as_slice().to_vec())),
                    Err(_) => break,
                }
            }
            out
        })
    })
}

static ACTIVE: [AtomicUsize; 4] = [AtomicUsize::new(0), AtomicUsize::new(0), AtomicUsize::new(0), AtomicUsize::new(0)];
const KINDS: [&str; 4] = ["keygen", "sign", "verify", "failing"];

struct Active(usize);
impl Active {
    fn enter(kind: usize, seen: &AtomicU64) -> Active {
        // which other call kinds are in flight right now
        let mut mask = 0u64;
        for (k, a) in ACTIVE.iter().enumerate() {
            if a.load(Ordering::SeqCst) > 0 {
                mask |= 1 << k;
            }
        }
        seen.fetch_or(mask << (kind * 4), Ordering::SeqCst);
        ACTIVE[kind].fetch_add(1, Ordering::SeqCst);
        Active(kind)
    }
}
impl Drop for Active {
    fn drop(&mut self) {
        ACTIVE[self.0].fetch_sub(1, Ordering::SeqCst);
    }
}

pub fn run(ctx: &Ctx) -> Report {
    let mut rng = ctx.rng("c09");
    let mut cases: Vec<Case> = Vec::new();
    let shapes: Vec<Vec<(u32, u32)>> = vec![vec![(2, 8)], vec![(2, 1)], vec![(5, 4)], vec![(2, 4), (2, 8)], vec![(2, 8), (5, 2)], vec![(2, 2), (2, 4), (2, 8)], vec![(2, 8); 8], vec![(10, 2)], vec![(2, 8), (10, 1)]];
    for alg in model::ALL_ALGS {
        for spec in &shapes {
            let lv = levels(spec);
            let total = hss::total_leaves(&lv) as u64;
            for k in 0..ctx.size(6, 30) {
                let counter = match k {
                    0 => 0,
                    1 => total - 1,
                    _ => rng.below(total),
                };
                let mlen = *rng.pick(&[0usize, 1, 32, 55, 64, 200]);
                cases.push(Case { alg, levels: lv.clone(), seed: rng.bytes(alg.n()), counter, msg: rng.bytes(mlen) });
            }
        }
    }
    // keys that share one seed but differ in their parameter lists (anything memoised per seed or
    // per tree identifier instead of per full input would mix these up)
    for alg in model::ALL_ALGS {
        let shared_seed = rng.bytes(alg.n());
        for spec in [vec![(2u32, 8u32)], vec![(2, 4)], vec![(5, 4)], vec![(2, 8), (2, 4)], vec![(2, 8), (2, 8)], vec![(2, 4), (2, 8)]] {
            let lv = levels(&spec);
            for counter in [0u64, 1] {
                cases.push(Case { alg, levels: lv.clone(), seed: shared_seed.clone(), counter, msg: b"shared seed".to_vec() });
            }
        }
    }
    let mut rep = Report::new();
    // baseline: a fresh process with a scrubbed environment
    let base = match run_worker_process(&cases, false) {
        Ok(b) => b,
        Err(e) => {
            rep.inconclusive(&format!("baseline worker process failed: {e}"));
            return rep;
        }
    };
    rep.count("baseline_cases", cases.len() as i128);
    // another fresh process, noisy environment, other working directory
    match run_worker_process(&cases, true) {
        Ok(other) => {
            for (i, c) in cases.iter().enumerate() {
                compare(&mut rep, "second-process-noisy-env", c, &base[i], &other[i]);
                rep.distinct(&format!("process|{}|{}", c.alg.name(), fmt_levels(&c.levels)));
            }
        }
        Err(e) => rep.inconclusive(&format!("second worker process failed: {e}")),
    }
    // a third fresh process that evaluates the cases in reverse order (history-dependent state
    // inside one process would show as a difference from the baseline)
    {
        let rev: Vec<Case> = cases.iter().rev().cloned().collect();
        match run_worker_process(&rev, false) {
            Ok(other) => {
                let n = cases.len();
                for (i, c) in cases.iter().enumerate() {
                    compare(&mut rep, "third-process-reverse-order", c, &base[i], &other[n - 1 - i]);
                }
            }
            Err(e) => rep.inconclusive(&format!("third worker process failed: {e}")),
        }
    }
    memcheck(ctx, &mut rep, &cases, &base);

    // in-process contexts
    let idx: Vec<usize> = (0..cases.len()).collect();
    let cases_ref = &cases;
    let base_ref = &base;
    let seed = ctx.seed;
    let overlap_seen = AtomicU64::new(0);
    let overlap_ref = &overlap_seen;
    let kinds_overlap: Mutex<BTreeSet<String>> = Mutex::new(BTreeSet::new());
    let r2 = par_run(ctx, idx, |i, w: &mut Worker| {
        let c = &cases_ref[i];
        let b = &base_ref[i];
        let mut rng = Rng::new(seed).fork(&format!("c09-{i}"));
        // same thread, twice
        {
            let _a = Active::enter(1, overlap_ref);
            let r1 = evaluate(c, SignEntry::Bytes, None);
            compare(&mut w.report, "same-thread-1st", c, b, &r1);
            let r2 = evaluate(c, SignEntry::Bytes, None);
            compare(&mut w.report, "same-thread-2nd", c, b, &r2);
        }
        // after unrelated operations
        for _ in 0..3 {
            let other = &cases_ref[rng.range(0, cases_ref.len())];
            match rng.below(5) {
                0 => {
                    let _a = Active::enter(0, overlap_ref);
                    let _ = libcall::keygen(other.alg, &other.levels, &other.seed, None);
                }
                1 => {
                    let _a = Active::enter(3, overlap_ref);
                    let _ = libcall::sign_bytes(other.alg, &[1, 2, 3], b"x", Cb::Accept, None);
                    let _ = libcall::sign_bytes(other.alg, &hss::make_blob(other.counter, &other.levels, &other.seed), b"x", Cb::Refuse, None);
                }
                2 => {
                    let _a = Active::enter(3, overlap_ref);
                    // a call that panics inside the library's callback path and is caught
                    let _ = libcall::sign_bytes_crashing(other.alg, &hss::make_blob(other.counter, &other.levels, &other.seed), b"boom");
                }
                3 => {
                    let _a = Active::enter(2, overlap_ref);
                    let _ = libcall::verify(other.alg, b"m", &rng.bytes(100), &rng.bytes(60), libcall::VerifyEntry::Bytes);
                }
                _ => {
                    let _a = Active::enter(1, overlap_ref);
                    let mut aux = AuxBuf::new(vec![0u8; 400]);
                    let _ = libcall::keygen(other.alg, &other.levels, &other.seed, Some(&mut aux));
                    let _ = libcall::sign_bytes(other.alg, &hss::make_blob(other.counter, &other.levels, &other.seed), b"y", Cb::Accept, Some(&mut aux));
                }
            }
        }
        {
            let _a = Active::enter(1, overlap_ref);
            let r3 = evaluate(c, SignEntry::Bytes, None);
            compare(&mut w.report, "after-unrelated-operations", c, b, &r3);
            // other entry points, with aux
            let r4 = evaluate(c, SignEntry::TrySign, None);
            compare(&mut w.report, "in-memory-SigningKey", c, b, &r4);
            let mut aux = AuxBuf::new(vec![0u8; 500]);
            let _ = libcall::keygen(c.alg, &c.levels, &c.seed, Some(&mut aux));
            let r5 = evaluate(c, SignEntry::TrySignAux, Some(&mut aux));
            compare(&mut w.report, "with-aux", c, b, &r5);
            // a key object that signs, gets older key bytes written back through as_mut_slice(), and
            // signs again: it must continue exactly like those bytes (nothing but the bytes is state)
            {
                use crate::libcall::{KeyObs, KeyOp};
                let start = hss::make_blob(c.counter, &c.levels, &c.seed);
                let ops = vec![KeyOp::TrySign(b"first".to_vec()), KeyOp::TrySign(b"second".to_vec()), KeyOp::Overwrite(start.clone()), KeyOp::TrySign(c.msg.clone()), KeyOp::Bytes];
                if let Some((_, obs)) = libcall::key_object_session(c.alg, &c.levels, &c.seed, false, &start, &ops) {
                    let sig = match &obs[3] {
                        KeyObs::Signed(Out::Ok(s)) => hex(&model::alg::sha256(&[s])),
                        KeyObs::Signed(o) => o.describe(),
                        _ => "-".into(),
                    };
                    let next = match &obs[4] {
                        KeyObs::Bytes(b) => hex(b),
                        _ => "-".into(),
                    };
                    let got = Res { sk: b.sk.clone(), vk: b.vk.clone(), sig, next };
                    compare(&mut w.report, "key-object-with-bytes-written-back", c, b, &got);
                }
            }
            // an aux buffer that an unrelated key (same hash, same shape) left behind: first one
            // that its sign call set up, then one that its keygen filled
            let other_seed = rng.bytes(c.alg.n());
            let oblob = hss::make_blob(0, &c.levels, &other_seed);
            let mut left = AuxBuf::new(vec![0u8; 500]);
            let _ = libcall::sign_bytes(c.alg, &oblob, b"other key", Cb::Accept, Some(&mut left));
            let r6 = evaluate(c, SignEntry::Bytes, Some(&mut left));
            compare(&mut w.report, "aux-buffer-left-by-sign-of-another-key", c, b, &r6);
            let mut left2 = AuxBuf::new(vec![0u8; 500]);
            let _ = libcall::keygen(c.alg, &c.levels, &other_seed, Some(&mut left2));
            let r7 = evaluate(c, SignEntry::TrySignAux, Some(&mut left2));
            compare(&mut w.report, "aux-buffer-left-by-keygen-of-another-key", c, b, &r7);
        }
        w.report.distinct(&format!("thread|{}|{}|{}", c.alg.name(), fmt_levels(&c.levels), c.counter));
        if w.report.samples.len() < 4 {
            w.report.sample(J::obj().with("case", J::s(&case_line(c))).with("baseline_signature_sha256", J::s(&b.sig)).with("baseline_successor", J::s(&b.next)));
        }
        let mask = overlap_ref.load(Ordering::SeqCst);
        let mut set = kinds_overlap.lock().unwrap();
        for k in 0..4 {
            for o in 0..4 {
                if (mask >> (k * 4 + o)) & 1 == 1 {
                    set.insert(format!("{} while {}", KINDS[k], KINDS[o]));
                }
            }
        }
    });
    rep.merge(r2);
    let overlaps = kinds_overlap.into_inner().unwrap();
    rep.count("distinct_overlap_pairs", overlaps.len() as i128);
    rep.extra.insert("observed_overlaps".into(), J::Arr(overlaps.iter().map(|s| J::s(s)).collect()));
    if ctx.threads > 1 && overlaps.is_empty() {
        rep.inconclusive("no overlapping library calls were observed on the worker threads");
    }

    // key object that stays in memory vs key reloaded from its bytes before every signature
    let walks: Vec<(Alg, Vec<Level>)> = model::ALL_ALGS.iter().flat_map(|a| vec![(*a, levels(&[(2, 4), (2, 8)])), (*a, levels(&[(2, 8), (2, 2), (2, 4)]))]).collect();
    let r3 = par_run(ctx, walks, |(alg, lv), w: &mut Worker| {
        let mut rng = Rng::new(seed).fork(&format!("c09-walk-{}-{}", alg.name(), fmt_levels(&lv)));
        let sd = rng.bytes(alg.n());
        let total = hss::total_leaves(&lv) as usize;
        let msgs: Vec<Vec<u8>> = (0..total + 1).map(|i| rng.bytes(1 + i % 40)).collect();
        let blob0 = hss::make_blob(0, &lv, &sd);
        let mem = match walk_in_memory(alg, &blob0, &msgs) {
            Ok(m) => m,
            Err(p) => {
                w.report.violation(&format!("C09:in-memory-walk:panic:{}", alg.name()), &format!("panic at {}", p.site()), J::Null);
                return;
            }
        };
        let mut blob = blob0.clone();
        for (i, m) in msgs.iter().enumerate() {
            let rec = libcall::sign_bytes(alg, &blob, m, Cb::Accept, None);
            w.report.eval();
            match (&rec.result, rec.cb_args.first(), mem.get(i)) {
                (Out::Ok(sig), Some(next), Some((msig, mkey))) => {
                    if sig != msig || next != mkey {
                        w.report.violation(
                            &format!("C09:reloaded-vs-in-memory:{}:{}", if sig != msig { "signature" } else { "successor" }, alg.name()),
                            &format!("signature #{} of a key reloaded from its bytes differs from that of the key object that stayed in memory", i + 1),
                            J::obj().with("hash", J::s(alg.name())).with("levels", J::s(&fmt_levels(&lv))).with("seed", J::hex(&sd)).with("step", J::u(i)),
                        );
                    }
                    w.report.count("walk_steps_compared", 1);
                    blob = next.clone();
                }
                (Out::Ok(_), _, None) | (Out::Err, _, Some(_)) => {
                    w.report.violation(&format!("C09:reloaded-vs-in-memory:lifetime:{}", alg.name()), &format!("the reloaded key and the in-memory key disagree on whether signature #{} exists", i + 1), J::obj().with("hash", J::s(alg.name())).with("levels", J::s(&fmt_levels(&lv))).with("seed", J::hex(&sd)));
                    break;
                }
                _ => break,
            }
        }
        w.report.distinct(&format!("walk|{}|{}", alg.name(), fmt_levels(&lv)));
    });
    rep.merge(r3);
    rep.rule = "cases = (hash, parameter list, seed, counter, message); baseline = results of a fresh process with a scrubbed environment; cases include groups of keys that share one seed but differ in parameters; re-evaluations: second fresh process with 200 noise variables, hostile HBS_LMS_*/locale/TZ settings and another cwd; third fresh process evaluating in reverse order; a process under valgrind memcheck (software SHA-2 back end; any report with a library frame is a violation); same thread twice; after unrelated operations (other keys and hashes, failing calls, refused callbacks, a callback that panics and is caught, aux in use); concurrently on all worker threads (overlap of call kinds recorded from an atomic active-call table); SigningKey::try_sign and try_sign_with_aux(valid aux) vs byte-level sign; a key object that signed twice and then got its earlier bytes written back through as_mut_slice(); with an aux buffer that an unrelated key's sign or keygen call left behind; complete lifetimes of a SigningKey object kept in memory vs a key reloaded from its bytes before every signature; \
                distinct_nontrivial = distinct (context family, hash, parameter list, counter)"
        .into();
    if rep.counter("walk_steps_compared") == 0 {
        rep.inconclusive("no in-memory vs reloaded walk compared");
    }
    crate::props::shared::add_assumptions(&mut rep);
    rep
}
