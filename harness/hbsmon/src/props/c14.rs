//! C14: build-time limits only restrict what is accepted, never how accepted keys behave.
//!
//! This file provides the two process roles the C14 stage uses (the stage itself — building the
//! harness once per HBS_LMS_* configuration and comparing transcripts — lives in lib/stages.py):
//!
//!   hbsmon c14-cases  <levels> <heights;..> <ws;..>   -> case lines on stdout
//!   hbsmon c14-worker < cases                          -> one transcript line per case
//!
//! The same worker binary source is compiled under every configuration; the default build's
//! transcript is the oracle for the lists inside the limits.

use std::io::{BufRead, Write};

use model::hss;
use model::json::{hex, unhex};
use model::{Alg, Level, Rng};

use crate::common::Ctx;
use crate::libcall::{self, Cb, Out, VerifyEntry};

const HEIGHTS: [u32; 6] = [2, 5, 10, 15, 20, 25];
const WSL: [u32; 4] = [1, 2, 4, 8];

fn parse_list(s: &str) -> Vec<u32> {
    s.split(',').filter(|x| !x.trim().is_empty()).map(|x| x.trim().parse().expect("number")).collect()
}

fn fmt_levels(lv: &[Level]) -> String {
    lv.iter().map(|l| format!("{}/{}", l.h, l.w)).collect::<Vec<_>>().join(",")
}

fn parse_levels(s: &str) -> Vec<Level> {
    s.split(',')
        .map(|p| {
            let mut it = p.split('/');
            Level { h: it.next().unwrap().parse().unwrap(), w: it.next().unwrap().parse().unwrap() }
        })
        .collect()
}

/// cost guard: only generate trees this workload can afford (heights <= 10 for signing)
fn affordable(h: u32) -> bool {
    h <= 10
}

pub fn cases(ctx: &Ctx, extra: &[String]) {
    let nlevels: usize = extra[0].parse().expect("levels");
    let hs = parse_list(&extra[1]);
    let ws = parse_list(&extra[2]);
    assert_eq!(hs.len(), nlevels);
    assert_eq!(ws.len(), nlevels);
    let mut rng = ctx.rng(&format!("c14-{}-{}-{}", extra[0], extra[1], extra[2]));
    let out = std::io::stdout();
    let mut out = out.lock();
    let mut emit = |kind: &str, alg: Alg, lv: &[Level], rng: &mut Rng| {
        let seed = rng.bytes(alg.n());
        let total = hss::total_leaves(lv);
        let counter = if total > 1 { rng.below((total.min(1 << 40)) as u64) } else { 0 };
        let mlen = rng.range(0, 70);
        let msg = rng.bytes(mlen);
        writeln!(out, "{} {} {} {} {} {}", kind, alg.name(), fmt_levels(lv), hex(&seed), counter, if msg.is_empty() { "-".to_string() } else { hex(&msg) }).unwrap();
    };
    let allowed_h = |i: usize| -> Vec<u32> { HEIGHTS.iter().copied().filter(|h| *h <= hs[i] && affordable(*h)).collect() };
    let allowed_w = |i: usize| -> Vec<u32> { WSL.iter().copied().filter(|w| *w >= ws[i]).collect() };
    let reps = ctx.size(1, 5);
    for alg in model::ALL_ALGS {
        for len in 1..=nlevels {
            if (0..len).any(|i| allowed_h(i).is_empty()) {
                continue;
            }
            // boundary list: the largest affordable height and the smallest allowed W on every level
            let mut lists: Vec<Vec<Level>> = Vec::new();
            let boundary: Vec<Level> = (0..len)
                .map(|i| Level { h: *allowed_h(i).iter().max().unwrap(), w: ws[i] })
                .collect();
            lists.push(boundary);
            for _ in 0..reps {
                lists.push((0..len).map(|i| Level { h: *rng.pick(&allowed_h(i)), w: *rng.pick(&allowed_w(i)) }).collect());
            }
            for mut lv in lists {
                // keep signing affordable: at most one H10 level (SHA-2 only, W >= 4 on it)
                let mut tens = 0;
                for (li, l) in lv.iter_mut().enumerate() {
                    if l.h == 10 {
                        tens += 1;
                        let w_ok = ws[li] <= 8;
                        if tens > 1 || alg.is_shake() {
                            l.h = 5;
                        } else if l.w < 4 && w_ok {
                            l.w = l.w.max(ws[li]).max(4);
                        }
                    }
                    if l.h == 5 && alg.is_shake() && l.w == 8 && ws[li] <= 4 {
                        l.w = 4;
                    }
                }
                emit("IN", alg, &lv, &mut rng);
            }
        }
        // just outside the limits
        // (a) one level too many
        if nlevels < 8 {
            let lv: Vec<Level> = (0..nlevels + 1)
                .map(|i| {
                    let j = i.min(nlevels - 1);
                    Level { h: *allowed_h(j).iter().min().unwrap_or(&2), w: *allowed_w(j).iter().max().unwrap() }
                })
                .collect();
            emit("OUT-levels", alg, &lv, &mut rng);
            let lv8: Vec<Level> = (0..8).map(|_| Level { h: 2, w: 8 }).collect();
            emit("OUT-levels", alg, &lv8, &mut rng);
        }
        // (b) one level with the next larger height than its limit
        for i in 0..nlevels {
            if let Some(hbig) = HEIGHTS.iter().copied().find(|h| *h > hs[i]) {
                if i == 0 && hbig > 15 {
                    continue; // a wrongly accepted top tree of that size could not be generated
                }
                let mut lv: Vec<Level> = (0..=i).map(|j| Level { h: allowed_h(j).iter().min().copied().unwrap_or(2), w: *allowed_w(j).iter().max().unwrap() }).collect();
                lv[i].h = hbig;
                lv[i].w = 8;
                emit("OUT-height", alg, &lv, &mut rng);
            }
        }
        // (c) one level with a smaller Winternitz parameter than its minimum
        for i in 0..nlevels {
            if let Some(wsmall) = WSL.iter().copied().filter(|w| *w < ws[i]).max() {
                let mut lv: Vec<Level> = (0..=i).map(|j| Level { h: allowed_h(j).iter().min().copied().unwrap_or(2), w: *allowed_w(j).iter().max().unwrap() }).collect();
                lv[i].w = wsmall;
                emit("OUT-winternitz", alg, &lv, &mut rng);
            }
        }
    }
}

fn o<T>(out: &Out<T>, f: impl Fn(&T) -> String) -> String {
    match out {
        Out::Ok(t) => format!("ok:{}", f(t)),
        Out::Err => "err".to_string(),
        Out::Panic(p) => format!("panic:{}", p.site().replace(' ', "_")),
    }
}

/// Execute every case line (in parallel) and print one transcript line per case, in input order.
pub fn worker(ctx: &Ctx) {
    let stdin = std::io::stdin();
    let lines: Vec<String> = stdin.lock().lines().map(|l| l.unwrap()).collect();
    let n = lines.len();
    let results: Vec<std::sync::Mutex<String>> = (0..n).map(|_| std::sync::Mutex::new(String::new())).collect();
    let idx: Vec<usize> = (0..n).collect();
    let lines_ref = &lines;
    let results_ref = &results;
    let _ = crate::common::par_run(ctx, idx, |i, _w| {
        *results_ref[i].lock().unwrap() = run_line(&lines_ref[i]);
    });
    let out = std::io::stdout();
    let mut out = out.lock();
    for r in results {
        let s = r.into_inner().unwrap();
        if !s.is_empty() {
            writeln!(out, "{}", s).unwrap();
        }
    }
}

fn run_line(line: &str) -> String {
    {
        let f: Vec<&str> = line.split_whitespace().collect();
        if f.len() < 6 {
            return String::new();
        }
        let kind = f[0];
        let alg = Alg::from_name(f[1]).unwrap();
        let lv = parse_levels(f[2]);
        let seed = unhex(f[3]).unwrap();
        let counter: u64 = f[4].parse().unwrap();
        let msg = if f[5] == "-" { vec![] } else { unhex(f[5]).unwrap() };
        let mut t: Vec<String> = Vec::new();
        // artefacts (signature, public key) that the DEFAULT build produced for this case: whatever
        // this build thinks of the parameter list, verifying them must not crash, and for lists
        // inside the limits it must succeed
        if f.len() >= 8 {
            if let (Some(fsig), Some(fpk)) = (unhex(f[6]), unhex(f[7])) {
                for e in crate::libcall::VERIFY_ENTRIES {
                    let v = libcall::verify(alg, &msg, &fsig, &fpk, e);
                    t.push(format!("verify_foreign[{}]={}", e.name().replace(' ', "_"), o(&v, |_| String::new())));
                }
            }
        }
        let emit_artifacts = std::env::var("VERIF_C14_EMIT_ARTIFACTS").is_ok();
        let kg = libcall::keygen(alg, &lv, &seed, None);
        t.push(format!("keygen={}", o(&kg, |k| format!("{}:{}", hex(&k.sk), hex(&k.vk)))));
        // a key file written by the default build (the model knows the format) is loaded here
        let mut blob = hss::make_blob(counter, &lv, &seed);
        let tallest = lv.iter().map(|l| l.h).max().unwrap();
        if tallest > 15 || (tallest > 10 && alg.is_shake()) {
            // trees of that size cannot be generated; only keygen (top tree) is observable
            t.push("lifetime=skipped-too-tall sign=skipped-too-tall".into());
        } else {
            let lt = libcall::lifetime(alg, &blob);
            t.push(format!("lifetime={}", o(&lt, |n| n.to_string())));
            let rec = libcall::sign_bytes(alg, &blob, &msg, Cb::Accept, None);
            let next = rec.cb_args.first().map(|b| hex(b)).unwrap_or_else(|| "-".into());
            t.push(format!("sign={}", o(&rec.result, |s| format!("{}:{}", s.len(), hex(&model::alg::sha256(&[s]))))));
            t.push(format!("callbacks={}", rec.cb_args.len()));
            t.push(format!("next={}", next));
            if let (Out::Ok(sig), Out::Ok(k)) = (&rec.result, &kg) {
                if emit_artifacts && sig.len() <= 40_000 {
                    t.push(format!("artifact={}:{}", hex(sig), hex(&k.vk)));
                }
                let v = libcall::verify(alg, &msg, sig, &k.vk, VerifyEntry::Bytes);
                t.push(format!("verify={}", o(&v, |_| String::new())));
                let mut m2 = msg.clone();
                m2.push(1);
                let v2 = libcall::verify(alg, &m2, sig, &k.vk, VerifyEntry::Bytes);
                t.push(format!("verify_other={}", o(&v2, |_| String::new())));
            }
            // aux data written and used by this build
            if kind == "IN" {
                let mut aux = crate::libcall::AuxBuf::new(vec![0u8; 2500]);
                let kga = libcall::keygen(alg, &lv, &seed, Some(&mut aux));
                t.push(format!("keygen_aux={}", o(&kga, |k| format!("{}:{}:{}", hex(&model::alg::sha256(&[&k.vk])), aux.used, hex(&model::alg::sha256(&[aux.used_part()]))))));
                let reca = libcall::sign_bytes(alg, &blob, &msg, Cb::Accept, Some(&mut aux));
                t.push(format!("sign_aux={}", o(&reca.result, |s| hex(&model::alg::sha256(&[s])))));
            }
            // the last leaf of the key: successor must be the wiped key
            let total = hss::total_leaves(&lv);
            if kind == "IN" && total <= u64::MAX as u128 {
                blob[..8].copy_from_slice(&((total - 1) as u64).to_be_bytes());
                let rec = libcall::sign_bytes(alg, &blob, &msg, Cb::Accept, None);
                t.push(format!(
                    "last={}:{}",
                    o(&rec.result, |s| hex(&model::alg::sha256(&[s]))),
                    rec.cb_args.first().map(|b| hex(b)).unwrap_or_else(|| "-".into())
                ));
            }
        }
        // (the transcript line starts with the case as given, without the artefact fields)
        format!("{} | {}", f[..6].join(" "), t.join(" "))
    }
}
