//! Exhaustive enumeration of key shapes x boundary counters for the pure counter arithmetic
//! (C05 accounting, C13 leaf selection), executed on the real code through the verif_hooks
//! accessors and compared with u128 model arithmetic.

use model::hss;
use model::{Alg, Level, Report, Rng, J};

use crate::common::{par_run, Ctx, Worker};
use crate::libcall::{guard, PanicInfo};
use crate::with_hash;

#[derive(Clone, Copy, PartialEq, Eq)]
pub enum Mode {
    /// C05: remaining lifetime and successor/wipe, lists with sum(h) <= 63
    Accounting,
    /// C13: digits, successor, remaining; lists of any total height
    LeafSelection,
}

pub struct HookOut {
    pub digits: Result<Result<(Vec<u32>, usize), ()>, PanicInfo>,
    pub successor: Result<Result<Vec<u8>, ()>, PanicInfo>,
    pub remaining: Result<Result<u64, ()>, PanicInfo>,
}

pub fn hooks(alg: Alg, blob: &[u8]) -> HookOut {
    with_hash!(alg, H, {
        HookOut {
            digits: guard(|| hbs_lms::verif_hooks::leaf_indices::<H>(blob).map(|(d, n)| (d[..n].to_vec(), n))),
            successor: guard(|| hbs_lms::verif_hooks::successor_blob::<H>(blob).map(|b| b.as_slice().to_vec())),
            remaining: guard(|| hbs_lms::verif_hooks::remaining_lifetime::<H>(blob)),
        }
    })
}

pub fn boundary_counters(lv: &[Level], rng: &mut Rng, randoms: usize) -> Vec<u64> {
    let sum = hss::total_height(lv);
    let mut v: Vec<u64> = vec![0, 1];
    // every radix boundary -1 / 0 / +1
    let mut acc = 0u32;
    for l in lv.iter().rev() {
        acc += l.h;
        if acc >= 64 {
            break;
        }
        let b = 1u64 << acc;
        v.push(b - 1);
        v.push(b);
        v.push(b.wrapping_add(1));
        // the last leaf of the second-to-last subtree at this level
        v.push(b.wrapping_mul(3).wrapping_sub(1));
    }
    if sum < 64 {
        let total = 1u64 << sum;
        v.push(total - 2);
        v.push(total - 1);
        v.push(total); // last + 1: not reachable, only "no arithmetic failure"
    } else {
        v.push(u64::MAX - 1);
        v.push(u64::MAX);
        v.push(1u64 << 63);
    }
    for _ in 0..randoms {
        let r = rng.next();
        v.push(if sum < 64 { r % (1u64 << sum) } else { r });
    }
    v.sort_unstable();
    v.dedup();
    v
}

fn heights_of(index: u64, len: usize, set: &[u32]) -> Vec<u32> {
    let mut i = index;
    let b = set.len() as u64;
    (0..len)
        .map(|_| {
            let h = set[(i % b) as usize];
            i /= b;
            h
        })
        .collect()
}

pub fn check_one(r: &mut Report, prop: &str, mode: Mode, alg: Alg, lv: &[Level], counter: u64) {
    let seed = vec![0x5au8; alg.n()];
    let blob = hss::make_blob(counter, lv, &seed);
    let out = hooks(alg, &blob);
    r.eval();
    let sum = hss::total_height(lv);
    let hs: Vec<String> = lv.iter().map(|l| l.h.to_string()).collect();
    let shape_class = format!("levels={}:sum{}", lv.len(), if sum < 64 { "<=63" } else { ">=64" });
    let replay = || {
        J::obj()
            .with("property", J::s(prop))
            .with("hash", J::s(alg.name()))
            .with("heights", J::s(&hs.join(",")))
            .with("levels", J::s(&model::params::levels_to_string(lv)))
            .with("counter", J::Int(counter as i128))
            .with("private_key", J::hex(&blob))
    };
    let total = hss::total_leaves(lv);
    let reachable = (counter as u128) < total;
    // no arithmetic failure, ever
    for (name, p) in [
        ("leaf_indices", out.digits.as_ref().err()),
        ("successor", out.successor.as_ref().err()),
        ("remaining_lifetime", out.remaining.as_ref().err()),
    ] {
        if let Some(p) = p {
            r.violation(
                &format!("{prop}:panic:{name}:{shape_class}:{}", p.site()),
                &format!("{name} panicked for heights [{}] at counter {counter}: {} ({})", hs.join(","), p.message, p.site()),
                replay(),
            );
        }
    }
    if !reachable {
        // a counter at or beyond the number of leaves (last + 1 and further: a damaged or foreign key
        // file).  The statement's successor rule is "c + 1 until the last leaf and the wiped state
        // after it": advancing such a key must end in the wiped state, never in a usable key.
        r.count("unreachable_counters_probed", 1);
        if let Ok(Ok(got)) = &out.successor {
            if !hss::is_wiped(got, alg.n()) {
                r.violation(
                    &format!("{prop}:successor:{shape_class}:beyond_last_leaf"),
                    &format!("successor of counter {counter} (beyond the last leaf {}) for heights [{}] is {} instead of the wiped key", total - 1, hs.join(","), model::json::hex(got)),
                    replay(),
                );
            }
        }
        return;
    }
    if mode == Mode::LeafSelection {
        if let Ok(res) = &out.digits {
            let want = hss::leaf_digits(lv, counter);
            match res {
                Ok((got, n)) if *n == lv.len() && *got == want => {}
                other => r.violation(
                    &format!("{prop}:digits:{shape_class}"),
                    &format!("leaf indices for heights [{}] at counter {counter}: library {:?}, mixed-radix rule {:?}", hs.join(","), other, want),
                    replay(),
                ),
            }
        }
    }
    if let Ok(res) = &out.successor {
        let want = match hss::successor(lv, counter) {
            Some(c) => hss::make_blob(c, lv, &seed),
            None => hss::wiped_blob(alg.n()),
        };
        let ok = match res {
            Ok(got) => *got == want || (hss::successor(lv, counter).is_none() && hss::is_wiped(got, alg.n())),
            Err(_) => false,
        };
        if !ok {
            r.violation(
                &format!("{prop}:successor:{shape_class}:{}", if hss::successor(lv, counter).is_none() { "at_last_leaf" } else { "before_last_leaf" }),
                &format!(
                    "successor of counter {counter} for heights [{}]: library {}, expected {}",
                    hs.join(","),
                    res.as_ref().map(|b| model::json::hex(b)).unwrap_or_else(|_| "Err".into()),
                    model::json::hex(&want)
                ),
                replay(),
            );
        }
    }
    if sum <= 63 {
        if let Ok(res) = &out.remaining {
            let want = hss::remaining(lv, counter) as u64;
            if *res != Ok(want) {
                r.violation(
                    &format!("{prop}:remaining:{shape_class}"),
                    &format!("remaining lifetime for heights [{}] at counter {counter}: library {:?}, leaves - counter = {want}", hs.join(","), res),
                    replay(),
                );
            }
        }
    } else {
        r.count("tall_lists_checked", 1);
    }
}

struct Chunk {
    len: usize,
    from: u64,
    to: u64,
}

/// every list of 1..8 heights over `set` (restricted by `mode`), each with its boundary counters
pub fn enumerate(ctx: &Ctx, prop: &'static str, mode: Mode, set: &'static [u32], randoms: usize) -> Report {
    let mut chunks = Vec::new();
    for len in 1..=8usize {
        let n = (set.len() as u64).pow(len as u32);
        let step = 2048u64;
        let mut from = 0;
        while from < n {
            chunks.push(Chunk { len, from, to: (from + step).min(n) });
            from += step;
        }
    }
    let seed = ctx.seed;
    let mut rep = par_run(ctx, chunks, |ch, w: &mut Worker| {
        let mut rng = Rng::new(seed).fork(&format!("arith-{}-{}", ch.len, ch.from));
        for idx in ch.from..ch.to {
            let hs = heights_of(idx, ch.len, set);
            let sum: u32 = hs.iter().sum();
            if mode == Mode::Accounting && sum > 63 {
                continue;
            }
            let lv: Vec<Level> = hs.iter().map(|h| Level { h: *h, w: [1, 2, 4, 8][(rng.next() % 4) as usize] }).collect();
            // the arithmetic does not depend on the hash; vary it anyway (blob length differs)
            let alg = model::ALL_ALGS[(idx % 6) as usize];
            let counters = boundary_counters(&lv, &mut rng, randoms);
            let nc = counters.len() as u64;
            for c in counters {
                check_one(&mut w.report, prop, mode, alg, &lv, c);
            }
            w.report.count("lists", 1);
            if sum >= 64 {
                w.report.count("lists_sum_ge_64", 1);
            }
            // distinct cases of this list: its counters (lists are disjoint across workers)
            w.report.distinct_extra += nc;
            if idx % 40_000 == 17 && w.report.samples.len() < 6 {
                w.report.sample(
                    J::obj()
                        .with("heights", J::s(&hs.iter().map(|h| h.to_string()).collect::<Vec<_>>().join(",")))
                        .with("counters", J::Arr(boundary_counters(&lv, &mut rng.clone(), 0).iter().map(|c| J::Int(*c as i128)).collect())),
                );
            }
        }
    });
    rep.exhaustive = Some(true);
    rep
}
