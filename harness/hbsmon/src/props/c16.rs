//! C16: secret-bearing values are wiped when zeroized, dropped or exhausted.
//!
//! For Seed, SeedAndLmsTreeIdentifier, ReferenceImplPrivateKey, LmsPrivateKey and
//! LmotsPrivateKey (every W, every hash) a populated value is built with the real derivation
//! code, its secrets (seed bytes, chain values) are snapshotted, then
//!  (a) `zeroize()` is called: every secret field must read zero and no 8-byte window of any
//!      snapshot may remain anywhere in the value's raw bytes;
//!  (b) the value is moved into a MaybeUninit slot and dropped in place: same scan of the slot;
//!  (c) keys are exhausted through both signing entry points: the key bytes handed over with
//!      the last signature contain no 8-byte window of the seed.
//! Whether a type implements Zeroize at all is detected at run time (autoref specialisation),
//! so that a missing derive is reported as a violation instead of breaking the harness build.

use std::mem::MaybeUninit;

use hbs_lms::verif_hooks as vh;
use model::hss;
use model::{Alg, Level, Report, Rng, J};

use crate::common::{levels, par_run, Ctx, Worker};
use crate::libcall::{self, guard, seed_of, Cb, Out, SignEntry};
use crate::with_hash;

// --- does T implement Zeroize? (resolved per concrete type) -----------------------------------
struct Wrap<T>(T);
trait HasZeroize {
    fn try_zeroize(&mut self) -> bool;
}
impl<T: zeroize::Zeroize> HasZeroize for Wrap<&mut T> {
    fn try_zeroize(&mut self) -> bool {
        self.0.zeroize();
        true
    }
}
trait NoZeroize {
    fn try_zeroize(&mut self) -> bool;
}
impl<T> NoZeroize for &mut Wrap<&mut T> {
    fn try_zeroize(&mut self) -> bool {
        false
    }
}
macro_rules! zeroize_if_possible {
    ($v:expr) => {
        (&mut Wrap(&mut $v)).try_zeroize()
    };
}

/// raw bytes of a value (padding included), read volatile; empty under Miri, where reading
/// padding is itself undefined behaviour (the field-wise checks remain)
fn raw_bytes<T>(v: *const T) -> Vec<u8> {
    if crate::common::miri_mode() {
        return Vec::new();
    }
    let n = std::mem::size_of::<T>();
    let p = v as *const u8;
    (0..n).map(|i| unsafe { std::ptr::read_volatile(p.add(i)) }).collect()
}

/// first snapshot window found in `hay`
fn find_window(hay: &[u8], secrets: &[Vec<u8>]) -> Option<(usize, usize, usize)> {
    for (si, s) in secrets.iter().enumerate() {
        if s.len() < 8 {
            continue;
        }
        // all windows for short secrets, a spread of windows for long lists of chain values
        let step = if secrets.len() > 8 { (s.len() - 8).max(1) / 2 } else { 1 };
        let mut off = 0;
        while off + 8 <= s.len() {
            let w = &s[off..off + 8];
            if w.iter().all(|b| *b == 0) {
                off += step.max(1);
                continue;
            }
            if let Some(pos) = hay.windows(8).position(|h| h == w) {
                return Some((si, off, pos));
            }
            off += step.max(1);
        }
    }
    None
}

fn nonzero_seed(rng: &mut Rng, n: usize) -> Vec<u8> {
    (0..n).map(|_| (rng.below(255) + 1) as u8).collect()
}

struct Obs<'a> {
    r: &'a mut Report,
    alg: Alg,
    ty: &'static str,
    w: u32,
}

impl<'a> Obs<'a> {
    fn key(&self, what: &str) -> String {
        format!("C16:{what}:{}:{}:w={}", self.ty, self.alg.name(), self.w)
    }
    fn doc(&self, mode: &str) -> J {
        J::obj().with("property", J::s("C16")).with("type", J::s(self.ty)).with("hash", J::s(self.alg.name())).with("w", J::Int(self.w as i128)).with("mode", J::s(mode))
    }
    fn after(&mut self, mode: &str, implemented: bool, raw: &[u8], secrets: &[Vec<u8>], fields_zero: Option<bool>) {
        self.r.eval();
        self.r.count(&format!("{mode}_checks"), 1);
        if !implemented {
            self.r.violation(&self.key("no_zeroize_impl"), &format!("{} does not implement Zeroize", self.ty), self.doc(mode));
            return;
        }
        if fields_zero == Some(false) {
            self.r.violation(&self.key(&format!("{mode}:secret_field_not_zero")), &format!("a secret field of {} is not zero after {mode}", self.ty), self.doc(mode));
        }
        if let Some((si, off, pos)) = find_window(raw, secrets) {
            self.r.violation(
                &self.key(&format!("{mode}:secret_bytes_survive")),
                &format!("after {mode}, 8 bytes of secret #{si} (offset {off}) are still present in the memory of the {} value at byte {pos} of {}", self.ty, raw.len()),
                self.doc(mode).with("secret_index", J::u(si)).with("raw_offset", J::u(pos)),
            );
        }
        self.r.distinct(&format!("{}|{}|{}|{}", self.ty, self.alg.name(), self.w, mode));
        if self.r.samples.len() < 6 {
            let doc = self.doc(mode).with("value_size", J::u(raw.len())).with("secrets_snapshotted", J::u(secrets.len())).with("nonzero_bytes_left", J::u(raw.iter().filter(|b| **b != 0).count()));
            self.r.sample(doc);
        }
    }
}

macro_rules! check_type {
    ($obs:expr, $secrets:expr, $make:expr, $fields_zero:expr) => {{
        // (a) zeroize()
        {
            let mut v = $make;
            // vacuity guard: the scan must find the secrets while the value is alive
            if crate::common::miri_mode() {
            } else if find_window(&raw_bytes(&v as *const _), $secrets).is_none() {
                $obs.r.inconclusive(&format!("secret scan does not find the secrets in a live {} value", $obs.ty));
            } else {
                $obs.r.count("live_values_with_visible_secrets", 1);
            }
            let implemented = zeroize_if_possible!(v);
            let raw = raw_bytes(&v as *const _);
            let fz = $fields_zero(&v);
            $obs.after("zeroize", implemented, &raw, $secrets, Some(fz));
        }
        // (b) drop in place
        {
            let mut slot = MaybeUninit::uninit();
            slot.write($make);
            let p = slot.as_mut_ptr();
            unsafe { std::ptr::drop_in_place(p) };
            let raw = raw_bytes(p as *const _);
            $obs.after("drop", true, &raw, $secrets, None);
        }
        // (c) heap drop: the value lives in a Box; its block is photographed by the allocator at
        // the moment it is released (see spy.rs: to the optimiser this is an ordinary drop +
        // free(), so a wipe made of plain stores is dead code, as in a user's program)
        if crate::spy::available() && !crate::common::miri_mode() {
            let b = Box::new($make);
            let size = std::mem::size_of_val(&*b);
            let live = raw_bytes(&*b as *const _);
            std::hint::black_box(&b);
            crate::spy::start(size);
            drop(b);
            let (blocks, freed) = crate::spy::stop();
            if blocks == 0 || freed.len() < size || find_window(&live, $secrets).is_none() {
                $obs.r.inconclusive(&format!("heap-drop monitor did not see the block of a {} value being released", $obs.ty));
            } else {
                $obs.after("heap-drop", true, &freed, $secrets, None);
            }
        }
    }};
}

fn types_for<H: hbs_lms::HashChain>(alg: Alg, wv: u32, r: &mut Report, rng: &mut Rng) {
    let n = alg.n();
    let seed_bytes = nonzero_seed(rng, n);
    let i_tree: [u8; 16] = rng.bytes(16).try_into().unwrap();
    let secrets = vec![seed_bytes.clone()];
    let param = hbs_lms::HssParameter::<H>::new(
        hbs_lms::LmotsAlgorithm::from(model::params::code_of_w(wv)),
        hbs_lms::LmsAlgorithm::from(model::params::lms_code_of_height(5)),
    );

    if wv == 1 {
        // the types that do not depend on the Winternitz parameter are checked once per hash
        let mut o = Obs { r, alg, ty: "Seed", w: 0 };
        check_type!(o, &secrets, seed_of::<H>(&seed_bytes), |v: &hbs_lms::Seed<H>| v.as_slice().iter().all(|b| *b == 0));
        let mut o = Obs { r, alg, ty: "SeedAndLmsTreeIdentifier", w: 0 };
        check_type!(
            o,
            &secrets,
            vh::SeedAndLmsTreeIdentifier::<H>::new(&seed_of::<H>(&seed_bytes), &i_tree),
            |v: &vh::SeedAndLmsTreeIdentifier<H>| v.seed.as_slice().iter().all(|b| *b == 0)
        );
        // a derived per-tree seed is a secret as well: build it with the real derivation
        let parent = vh::SeedAndLmsTreeIdentifier::<H>::new(&seed_of::<H>(&seed_bytes), &i_tree);
        let child_secret = vh::generate_child_seed_and_lms_tree_identifier::<H>(&parent, &3).seed.as_slice().to_vec();
        let mut o = Obs { r, alg, ty: "SeedAndLmsTreeIdentifier(derived child)", w: 0 };
        check_type!(
            o,
            &vec![child_secret.clone()],
            vh::generate_child_seed_and_lms_tree_identifier::<H>(&parent, &3),
            |v: &vh::SeedAndLmsTreeIdentifier<H>| v.seed.as_slice().iter().all(|b| *b == 0)
        );
        // the same type loaded from key bytes, including bytes whose parameter block is all end
        // markers (a key that "looks wiped" but carries a seed) and a default value with a seed put in
        for (ty, params) in [("ReferenceImplPrivateKey(loaded)", [0x54u8, 0x54, 0xff, 0xff, 0xff, 0xff, 0xff, 0xff]), ("ReferenceImplPrivateKey(loaded, end-marker parameters)", [0xffu8; 8])] {
            let mut blob = vec![0u8; 8];
            blob[7] = 3;
            blob.extend_from_slice(&params);
            blob.extend_from_slice(&seed_bytes);
            if vh::ReferenceImplPrivateKey::<H>::from_binary_representation(&blob).is_ok() {
                let mut o = Obs { r, alg, ty, w: 0 };
                check_type!(
                    o,
                    &secrets,
                    vh::ReferenceImplPrivateKey::<H>::from_binary_representation(&blob).unwrap(),
                    |v: &vh::ReferenceImplPrivateKey<H>| v.seed.as_slice().iter().all(|b| *b == 0)
                );
            }
        }
        {
            let make = || {
                let mut k = vh::ReferenceImplPrivateKey::<H>::default();
                k.seed = seed_of::<H>(&seed_bytes);
                k
            };
            let mut o = Obs { r, alg, ty: "ReferenceImplPrivateKey(default + seed)", w: 0 };
            check_type!(o, &secrets, make(), |v: &vh::ReferenceImplPrivateKey<H>| v.seed.as_slice().iter().all(|b| *b == 0));
        }
        let mut o = Obs { r, alg, ty: "ReferenceImplPrivateKey", w: 0 };
        check_type!(
            o,
            &secrets,
            vh::ReferenceImplPrivateKey::<H>::generate(&[param, param], &seed_of::<H>(&seed_bytes)).unwrap(),
            |v: &vh::ReferenceImplPrivateKey<H>| v.seed.as_slice().iter().all(|b| *b == 0)
        );
    }
    // a tree key in the middle of its life, on its last leaf, and used up (index = number of leaves)
    for (ty, used) in [("LmsPrivateKey", 7u32), ("LmsPrivateKey(fresh)", 0), ("LmsPrivateKey(last leaf)", 31), ("LmsPrivateKey(used up)", 32)] {
        let mut o = Obs { r, alg, ty, w: wv };
        check_type!(
            o,
            &secrets,
            vh::LmsPrivateKey::<H>::new(seed_of::<H>(&seed_bytes), i_tree, used, *param.get_lmots_parameter(), *param.get_lms_parameter()),
            |v: &vh::LmsPrivateKey<H>| v.seed.as_slice().iter().all(|b| *b == 0)
        );
    }
    // LM-OTS private key: the chain start values are the secrets
    let make_ots = || vh::generate_lmots_private_key::<H>(i_tree, [0, 0, 0, 5], seed_of::<H>(&seed_bytes), *param.get_lmots_parameter());
    let chain_secrets: Vec<Vec<u8>> = {
        let k = make_ots();
        k.key.as_slice().iter().map(|node| node.as_slice().to_vec()).collect()
    };
    let p = model::params::ots_rfc(n, wv).p;
    if chain_secrets.len() < p {
        r.violation(&format!("C16:setup:LmotsPrivateKey:{}:w={wv}", alg.name()), "could not populate an LM-OTS private key", J::Null);
    }
    let mut o = Obs { r, alg, ty: "LmotsPrivateKey", w: wv };
    check_type!(o, &chain_secrets, make_ots(), |v: &vh::LmotsPrivateKey<H>| v.key.as_slice().iter().all(|node| node.as_slice().iter().all(|b| *b == 0)));
    r.count("chain_values_snapshotted", chain_secrets.len() as i128);
}

enum Task {
    Types(Alg, u32),
    Exhaust(Alg, Vec<Level>, SignEntry),
    /// the last signature of keys far too large to walk: the state just before the end is
    /// written into the key bytes (total heights 35, 63, 64, 65, 70: the last counter is
    /// 2^sum-1, or 2^64-1 where the 64-bit counter is narrower than the key's lifetime)
    ExhaustTall(Alg, Vec<Level>),
}

fn exhaust_tall(alg: Alg, lv: &[Level], w: &mut Worker, ctx: &Ctx) {
    let lvs = model::params::levels_to_string(lv);
    let mut rng = Rng::new(ctx.seed).fork(&format!("c16-tall-{}-{}", alg.name(), lvs));
    let seed = nonzero_seed(&mut rng, alg.n());
    let sum = hss::total_height(lv);
    let last: u64 = if sum >= 64 { u64::MAX } else { (1u64 << sum) - 1 };
    let blob = hss::make_blob(last, lv, &seed);
    for entry in [SignEntry::Bytes, SignEntry::TrySign] {
        let rec = match entry {
            SignEntry::Bytes => libcall::sign_bytes(alg, &blob, b"c16 last", Cb::Accept, None),
            e => libcall::sign_key(alg, &blob, b"c16 last", e, None),
        };
        let next = match entry {
            SignEntry::Bytes => rec.cb_args.first().cloned(),
            _ => rec.key_after.clone(),
        };
        w.report.eval();
        w.report.count("exhaust_tall_checks", 1);
        match (rec.result.is_ok(), next) {
            (true, Some(next)) => {
                if let Some((_, off, pos)) = find_window(&next, &[seed.clone()]) {
                    w.report.violation(
                        &format!("C16:exhaust:seed_bytes_survive:{}:{:?}:sum{}", alg.name(), entry, if sum >= 64 { ">=64" } else { "<64" }),
                        &format!("the key held after the signature at the last counter ({last}) of a key with total height {sum} still contains seed bytes (seed offset {off} at key byte {pos}): {}", model::json::hex(&next)),
                        J::obj().with("hash", J::s(alg.name())).with("levels", J::s(&lvs)).with("seed", J::hex(&seed)).with("counter", J::Int(last as i128)).with("entry", J::s(&format!("{entry:?}"))).with("private_key", J::hex(&blob)),
                    );
                }
            }
            _ => w.report.note(&format!("signing at the last counter of {lvs} did not release a signature ({}): nothing to inspect", rec.result.describe())),
        }
        w.report.distinct(&format!("exhaust-tall|{}|{}|{:?}", alg.name(), lvs, entry));
    }
}

fn exhaust(alg: Alg, lv: &[Level], entry: SignEntry, w: &mut Worker, ctx: &Ctx) {
    let lvs = model::params::levels_to_string(lv);
    let mut rng = Rng::new(ctx.seed).fork(&format!("c16-x-{}-{}-{:?}", alg.name(), lvs, entry));
    let seed = nonzero_seed(&mut rng, alg.n());
    let kp = match libcall::keygen(alg, lv, &seed, None) {
        Out::Ok(k) => k,
        _ => return,
    };
    let total = hss::total_leaves(lv) as u64;
    let mut blob = kp.sk.clone();
    for c in 0..total {
        let rec = match entry {
            SignEntry::Bytes => libcall::sign_bytes(alg, &blob, b"c16", Cb::Accept, None),
            e => libcall::sign_key(alg, &blob, b"c16", e, None),
        };
        let next = match entry {
            SignEntry::Bytes => rec.cb_args.first().cloned(),
            _ => rec.key_after.clone(),
        };
        let next = match (rec.result.is_ok(), next) {
            (true, Some(n)) => n,
            _ => {
                w.report.inconclusive("an exhaustion walk could not advance");
                return;
            }
        };
        if c + 1 == total {
            w.report.eval();
            w.report.count("exhaust_checks", 1);
            if let Some((_, off, pos)) = find_window(&next, &[seed.clone()]) {
                w.report.violation(
                    &format!("C16:exhaust:seed_bytes_survive:{}:{:?}", alg.name(), entry),
                    &format!("the key held after the last signature ({entry:?}) still contains seed bytes (seed offset {off} at key byte {pos}): {}", model::json::hex(&next)),
                    J::obj().with("hash", J::s(alg.name())).with("levels", J::s(&lvs)).with("seed", J::hex(&seed)).with("entry", J::s(&format!("{entry:?}"))),
                );
            }
            w.report.distinct(&format!("exhaust|{}|{}|{:?}", alg.name(), lvs, entry));
        } else if entry != SignEntry::Bytes && c == 0 {
            // a live key keeps its seed, of course (guards the scan itself against vacuity)
            if find_window(&next, &[seed.clone()]).is_none() {
                w.report.inconclusive("seed scan did not find the seed in a live key");
            }
        }
        blob = next;
    }
}

pub fn run(ctx: &Ctx) -> Report {
    let mut tasks = Vec::new();
    if ctx.miri {
        // Miri stage: zeroize / drop of all five types for a few (hash, W) under the interpreter
        // (zeroize's volatile writes, ArrayVecZeroize), one last-leaf signature; this shard's share
        let combos = [(Alg::Sha256_128, 8u32), (Alg::Sha256_128, 1), (Alg::Shake256_192, 4), (Alg::Sha256_256, 1), (Alg::Sha256_192, 2), (Alg::Shake256_128, 1), (Alg::Shake256_256, 8), (Alg::Sha256_256, 4)];
        for (i, (alg, wv)) in combos.iter().enumerate() {
            if ctx.mine(i) && (i < 4 || !ctx.quick()) {
                tasks.push(Task::Types(*alg, *wv));
            }
        }
    }
    for alg in model::ALL_ALGS {
        if ctx.miri {
            break;
        }
        for wv in [1u32, 2, 4, 8] {
            tasks.push(Task::Types(alg, wv));
        }
        for spec in [vec![(2u32, 8u32)], vec![(2, 4), (2, 8)]] {
            for entry in [SignEntry::Bytes, SignEntry::TrySign, SignEntry::TrySignAux] {
                tasks.push(Task::Exhaust(alg, levels(&spec), entry));
            }
        }
        if !alg.is_shake() || !ctx.quick() {
            let wv = if alg.is_shake() { 2 } else { 4 };
            tasks.push(Task::ExhaustTall(alg, vec![Level { h: 5, w: wv }; 7]));
            tasks.push(Task::ExhaustTall(alg, levels(&[(10, wv), (10, wv), (10, wv), (10, wv), (10, wv), (10, wv), (2, 8), (2, 8)])));
            tasks.push(Task::ExhaustTall(alg, levels(&[(10, wv), (10, wv), (10, wv), (10, wv), (10, wv), (10, wv), (5, wv)])));
            if alg == Alg::Sha256_128 || !ctx.quick() {
                // total height 63: the largest key whose lifetime still fits the 64-bit counter
                tasks.push(Task::ExhaustTall(alg, levels(&[(15, wv), (15, wv), (15, wv), (10, wv), (2, 8), (2, 8), (2, 8), (2, 8)])));
            }
        }
        if !ctx.quick() {
            tasks.push(Task::Exhaust(alg, levels(&[(2, 8), (2, 2), (2, 4)]), SignEntry::TrySign));
            tasks.push(Task::Exhaust(alg, levels(&[(5, 2)]), SignEntry::Bytes));
        }
    }
    let seed = ctx.seed;
    let reps = if ctx.miri { 1 } else { ctx.size(3, 25) };
    let mut rep = par_run(ctx, tasks, |t, w| match t {
        Task::Types(alg, wv) => {
            for rep in 0..reps {
                let mut rng = Rng::new(seed).fork(&format!("c16-{}-{}-{}", alg.name(), wv, rep));
                let r = &mut w.report;
                let res = guard(|| with_hash!(alg, H, { types_for::<H>(alg, wv, r, &mut rng) }));
                if let Err(p) = res {
                    w.report.violation(&format!("C16:panic:{}:{}", alg.name(), p.site()), &format!("panic while populating / wiping secret-bearing values: {}", p.message), J::Null);
                }
            }
        }
        Task::Exhaust(alg, lv, entry) => exhaust(alg, &lv, entry, w, ctx),
        Task::ExhaustTall(alg, lv) => exhaust_tall(alg, &lv, w, ctx),
    });
    rep.rule = "per (type, hash, W): a value populated by the real derivation code (random seeds without zero bytes) is (a) zeroized and (b) dropped in place inside a MaybeUninit slot; afterwards every secret field must read zero and no 8-byte window of the snapshotted secrets (seed bytes; all p chain values of an LM-OTS key) may occur anywhere in the raw memory of the value (volatile byte reads, padding included); (b') the value is boxed and the box dropped normally while an interposed libc free() photographs the block at the moment it is released (so the optimiser is free to treat the wipe as it would in a user's program): same scan of the photographed bytes; (c) keys are exhausted through sign / try_sign / try_sign_with_aux and the key bytes held after the last signature are scanned for seed windows; keys far too large to walk (total height 35, 64, 65) are put into their last state (counter 2^sum-1, or 2^64-1) and sign there; \
                distinct_nontrivial = distinct (type, hash, W, mode in {zeroize, drop, heap-drop, exhaust})"
        .into();
    if ctx.miri {
        rep.rule = "Miri stage: for this shard's share of (hash, W) combinations every secret-bearing type is populated by the real derivation code, zeroized (secret fields must read zero) and dropped in place under the interpreter, which checks the unsafe code inside zeroize / ArrayVecZeroize (volatile writes, fences) for undefined behaviour; the raw-memory scans are native only".into();
        if rep.counter("zeroize_checks") == 0 && ctx.shard < 4 {
            rep.inconclusive("the interpreter performed no zeroize check");
        }
        return rep;
    }
    if !crate::spy::available() {
        rep.note("free() interposer not compiled into this binary: heap-drop checks skipped");
    }
    for m in ["zeroize_checks", "drop_checks", "exhaust_checks"].into_iter().chain(if crate::spy::available() { Some("heap-drop_checks") } else { None }) {
        if rep.counter(m) == 0 {
            rep.inconclusive(&format!("no {m} performed"));
        }
    }
    rep.assumptions.push("stale copies left on the stack by moves are not the values' concern and are not scanned (the statement is about the values)".into());
    rep.assumptions.push("reading padding bytes of a value is done with volatile reads in a native build (not under Miri)".into());
    crate::props::shared::add_assumptions(&mut rep);
    rep
}
