//! One driver per property.

use model::Report;

use crate::common::Ctx;

pub mod c08;
pub mod shared;

pub fn is_worker(what: &str) -> bool {
    what.ends_with("-worker")
}

pub fn run_worker(what: &str, _ctx: &Ctx, _extra: &[String]) {
    eprintln!("unknown worker {what}");
    std::process::exit(3);
}

pub fn run(what: &str, ctx: &Ctx, _extra: &[String]) -> Option<Report> {
    Some(match what {
        "C08" => c08::run(ctx),
        _ => return None,
    })
}
