//! One driver per property.

use model::Report;

use crate::common::Ctx;

pub mod c01;
pub mod c02;
pub mod c03;
pub mod c04;
#[cfg(feature = "hooks")]
pub mod c05;
pub mod c06;
pub mod c07;
pub mod mutgen;
pub mod c08;
pub mod c09;
pub mod c10;
pub mod c11;
#[cfg(feature = "hooks")]
pub mod c12;
#[cfg(feature = "hooks")]
pub mod c13;
#[cfg(feature = "hooks")]
pub mod arith;
pub mod c14;
#[cfg(feature = "fv")]
pub mod c15;
#[cfg(feature = "hooks")]
pub mod c16;
pub mod replay;
pub mod shared;

pub fn is_worker(what: &str) -> bool {
    what.ends_with("-worker") || what.ends_with("-cases")
}

pub fn run_worker(what: &str, ctx: &Ctx, extra: &[String]) {
    match what {
        "c14-cases" => c14::cases(ctx, extra),
        "probe-worker" => crate::common::on_big_stack(|| probe(extra)),
        "c14-worker" => c14::worker(ctx),
        "c09-worker" => crate::common::on_big_stack(c09::worker),
        "replay-worker" => crate::common::on_big_stack(replay::worker),
        _ => {
            eprintln!("unknown worker {what}");
            std::process::exit(3);
        }
    }
}

pub fn run(what: &str, ctx: &Ctx, _extra: &[String]) -> Option<Report> {
    Some(match what {
        "C01" => c01::run(ctx),
        "C02" => c02::run(ctx),
        "C03" => c03::run(ctx),
        "C04" => c04::run(ctx),
        #[cfg(feature = "hooks")]
        "C05" => c05::run(ctx),
        "C06" => c06::run(ctx),
        "C07" => c07::run(ctx),
        "C08" => c08::run(ctx),
        "C09" => c09::run(ctx),
        "C10" => c10::run(ctx),
        "C11" => c11::run(ctx),
        #[cfg(feature = "hooks")]
        "C12" => c12::run(ctx),
        #[cfg(feature = "hooks")]
        "C13" => c13::run(ctx),
        #[cfg(feature = "hooks")]
        "C16" => c16::run(ctx),
        #[cfg(feature = "fv")]
        "C15" => c15::run(ctx),
        _ => return None,
    })
}

/// ad-hoc: hbsmon probe-worker <hash> <h/w,h/w,...> [counter]  -> keygen, sign, verify outcomes
fn probe(extra: &[String]) {
    use crate::libcall::{self, Cb, Out};
    let alg = model::Alg::from_name(&extra[0]).expect("hash");
    let lv: Vec<model::Level> = extra[1]
        .split(',')
        .map(|p| {
            let mut it = p.split('/');
            model::Level { h: it.next().unwrap().parse().unwrap(), w: it.next().unwrap().parse().unwrap() }
        })
        .collect();
    let counter: u64 = extra.get(2).and_then(|s| s.parse().ok()).unwrap_or(0);
    let seed = vec![7u8; alg.n()];
    let kg = libcall::keygen(alg, &lv, &seed, None);
    println!("keygen: {}", kg.describe());
    let blob = model::hss::make_blob(counter, &lv, &seed);
    println!("lifetime: {}", libcall::lifetime(alg, &blob).describe_val());
    let rec = libcall::sign_bytes(alg, &blob, b"probe", Cb::Accept, None);
    println!("sign: {} (callbacks: {})", rec.result.describe(), rec.cb_args.len());
    if let (Out::Ok(sig), Out::Ok(k)) = (&rec.result, &kg) {
        println!("signature length {}", sig.len());
        println!("verify: {}", libcall::verify(alg, b"probe", sig, &k.vk, libcall::VerifyEntry::Bytes).describe());
        let cfg = crate::common::lcfg(alg);
        println!("model verify: {}", model::hss::verify(&cfg, b"probe", sig, &k.vk));
    }
}
