//! One driver per property.

use model::Report;

use crate::common::Ctx;

pub mod c01;
pub mod c03;
pub mod c04;
pub mod c05;
pub mod c07;
pub mod c08;
pub mod c12;
pub mod c13;
pub mod arith;
pub mod c14;
pub mod shared;

pub fn is_worker(what: &str) -> bool {
    what.ends_with("-worker") || what.ends_with("-cases")
}

pub fn run_worker(what: &str, ctx: &Ctx, extra: &[String]) {
    match what {
        "c14-cases" => c14::cases(ctx, extra),
        "c14-worker" => crate::common::on_big_stack(c14::worker),
        _ => {
            eprintln!("unknown worker {what}");
            std::process::exit(3);
        }
    }
}

pub fn run(what: &str, ctx: &Ctx, _extra: &[String]) -> Option<Report> {
    Some(match what {
        "C01" => c01::run(ctx),
        "C03" => c03::run(ctx),
        "C04" => c04::run(ctx),
        "C05" => c05::run(ctx),
        "C07" => c07::run(ctx),
        "C08" => c08::run(ctx),
        "C12" => c12::run(ctx),
        "C13" => c13::run(ctx),
        _ => return None,
    })
}
