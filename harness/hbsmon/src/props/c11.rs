//! C11: key generation and signing reject malformed inputs instead of crashing.
//!
//! Enumerated fault grid: parameter-list lengths 0..10, key lengths 0..64, all 256 values of
//! every parameter byte, counters at and beyond the lifetime, wiped key, aux lengths 0..8 and
//! every level-word corruption.  Oracles: panic monitor, callback recorder (no invocation on
//! error paths), and for every Ok a correctness check (signature verifies and equals the
//! model's for the state the key bytes encode).

use model::hss::{self, UpperC};
use model::{Alg, Level, Report, J};

use crate::common::{lcfg, levels, par_run, Ctx, Worker};
use crate::libcall::{self, AuxBuf, Cb, Out, SignEntry};
use crate::props::shared;

enum Task {
    ParamLists(Alg),
    KeyLengths(Alg),
    ParamBytes(Alg, Vec<Level>),
    Counters(Alg, Vec<Level>),
    Aux(Alg, Vec<Level>),
}

fn affordable(lv: &[Level], alg: Alg, class: &str) -> bool {
    // the 256-values-per-parameter-byte sweeps turn many bytes into other VALID parameter sets;
    // only the cheap ones among those are executed
    let limit = if crate::common::miri_mode() {
        // under the interpreter (about 20 hashes per second) only 4-leaf W1 trees of the 16-byte hashes
        if class == "miri-end-to-end" { 3.0e3 } else { 0.0 }
    } else if class.starts_with("parameter-byte") {
        1.5e5
    } else {
        4.0e6
    };
    lv.iter().all(|l| l.h <= 5) && shared::sign_cost(alg, lv) < limit
}

/// sign + lifetime + from_bytes on arbitrary key bytes
fn probe_key(w: &mut Worker, alg: Alg, blob: &[u8], class: &str, detail: &str, aux: Option<Vec<u8>>) {
    let cfg = lcfg(alg);
    // in a build with reduced limits a well-formed key beyond them is an unusable input like any other
    let parsed = hss::parse_blob(&cfg, blob).filter(|b| crate::common::in_build_limits(&b.levels));
    let replay = || {
        J::obj()
            .with("property", J::s("C11"))
            .with("hash", J::s(alg.name()))
            .with("class", J::s(class))
            .with("detail", J::s(detail))
            .with("private_key", J::hex(blob))
            .with("aux", aux.as_ref().map(|a| J::hexa(a)).unwrap_or(J::Null))
    };
    // a well-formed key for trees this workload cannot afford is not exercised
    if let Some(b) = &parsed {
        if !affordable(&b.levels, alg, class) {
            w.report.count("skipped_valid_but_expensive", 1);
            return;
        }
    }
    let key = |what: &str, site: &str| format!("C11:{what}:{class}:{}:{site}", alg.name());
    // Key bytes that do not encode a key are refused at once by a correct library.  If they are
    // taken for a key after all, that key can be one whose trees take hours to build (H20, H25), so
    // the first call on such bytes runs under a deadline; a call that does not come back is reported
    // (and its thread abandoned) instead of stalling the whole check into its watchdog.
    if parsed.is_none() {
        let (b2, a2) = (blob.to_vec(), aux.clone());
        let (tx, rx) = std::sync::mpsc::channel();
        std::thread::Builder::new()
            .stack_size(crate::common::STACK)
            .spawn(move || {
                let mut auxb = a2.map(AuxBuf::new);
                let rec = libcall::sign_bytes(alg, &b2, b"c11 message", Cb::Refuse, auxb.as_mut());
                let _ = tx.send(rec.result.kind());
            })
            .ok();
        if rx.recv_timeout(std::time::Duration::from_secs(if crate::common::miri_mode() { 600 } else { 90 })).is_err() {
            w.report.eval();
            w.report.violation(
                &key("no_prompt_rejection", "-"),
                &format!("sign on key bytes that do not encode a key did not return within the deadline ({class}, {detail}): the bytes are being used as a key"),
                replay(),
            );
            return;
        }
    }
    for entry in [SignEntry::Bytes, SignEntry::TrySignAux] {
        for cb in [Cb::Accept, Cb::Refuse] {
            if entry != SignEntry::Bytes && cb == Cb::Refuse {
                continue;
            }
            let mut auxb = aux.clone().map(AuxBuf::new);
            let msg = b"c11 message";
            let rec = match entry {
                SignEntry::Bytes => libcall::sign_bytes(alg, blob, msg, cb, auxb.as_mut()),
                e => libcall::sign_key(alg, blob, msg, e, auxb.as_mut()),
            };
            let r = &mut w.report;
            r.eval();
            r.count(&format!("sign_{}", rec.result.kind()), 1);
            match &rec.result {
                Out::Panic(p) => {
                    r.violation(&key("panic:sign", &p.site()), &format!("{entry:?} panicked on a {class} input ({detail}): {} at {}", p.message, p.site()), replay());
                    if !rec.cb_args.is_empty() {
                        r.violation(&key("callback_before_panic", &p.site()), "update callback invoked before the panic", replay());
                    }
                }
                Out::Err => {
                    let allowed = if cb == Cb::Refuse && parsed.is_some() { 1 } else { 0 };
                    if rec.cb_args.len() > allowed {
                        r.violation(&key("callback_on_error", "-"), &format!("update callback invoked {} time(s) on a call that returned an error ({class}, {detail})", rec.cb_args.len()), replay());
                    }
                    if let Some(after) = &rec.key_after {
                        if after != blob {
                            r.violation(&key("key_changed_on_error", "-"), "in-memory key changed by a failing call", replay());
                        }
                    }
                }
                Out::Ok(sig) => {
                    // must be a correct result for the state the bytes encode
                    match &parsed {
                        None => r.violation(&key("signed_with_malformed_key", "-"), &format!("a signature was released for key bytes that do not encode a key ({class}, {detail})"), replay()),
                        Some(b) => {
                            let total = hss::total_leaves(&b.levels);
                            let vk = hss::public_key(&cfg, &mut w.cache, &b.levels, &b.seed);
                            if !libcall::verify(alg, msg, sig, &vk, libcall::VerifyEntry::Bytes).is_ok() || !hss::verify(&cfg, msg, sig, &vk) {
                                w.report.violation(&key("invalid_signature", "-"), &format!("Ok(signature) that does not verify under the key's public key ({class}, {detail})"), replay());
                            } else if (b.counter as u128) < total {
                                let want = hss::sign(&cfg, &mut w.cache, b, msg, UpperC::ChildSeed, None);
                                if want != *sig {
                                    w.report.violation(&key("wrong_signature", "-"), &format!("Ok(signature) differs from the model's signature for the state the key bytes encode ({class}, {detail})"), replay());
                                }
                            }
                            w.report.count("ok_results_checked", 1);
                        }
                    }
                }
            }
        }
    }
    // lifetime query and byte-level constructor
    let r = &mut w.report;
    r.eval();
    let lt = libcall::lifetime(alg, blob);
    match &lt {
        Out::Panic(p) => r.violation(&key("panic:get_lifetime", &p.site()), &format!("get_lifetime panicked on a {class} input ({detail}): {}", p.message), replay()),
        Out::Ok(v) => match &parsed {
            None => r.violation(&key("lifetime_of_malformed_key", "-"), &format!("get_lifetime returned Ok({v}) for bytes that do not encode a key"), replay()),
            Some(b) => {
                let total = hss::total_leaves(&b.levels);
                if (b.counter as u128) < total && *v as u128 != total - b.counter as u128 {
                    r.violation(&key("wrong_lifetime", "-"), &format!("get_lifetime = {v}, expected {}", total - b.counter as u128), replay());
                }
            }
        },
        Out::Err => {
            if let Some(b) = &parsed {
                if (b.counter as u128) < hss::total_leaves(&b.levels) {
                    r.violation(&key("lifetime_refused_valid_key", "-"), "get_lifetime failed for a well-formed live key", replay());
                }
            }
        }
    }
    r.eval();
    if let Out::Panic(p) = libcall::signing_key_from_bytes(alg, blob) {
        r.violation(&key("panic:SigningKey::from_bytes", &p.site()), &format!("SigningKey::from_bytes panicked: {}", p.message), replay());
    }
    r.distinct(&format!("{}|{}|{}", alg.name(), class, detail));
    if r.samples.len() < 8 && r.evaluations % 311 == 5 {
        r.sample(replay().with("get_lifetime", J::s(&lt.describe_val())));
    }
}

fn probe_keygen(w: &mut Worker, alg: Alg, lv: &[Level], class: &str, detail: &str, aux: Option<Vec<u8>>) {
    let cfg = lcfg(alg);
    let seed: Vec<u8> = (0..alg.n() as u8).map(|x| x.wrapping_mul(7).wrapping_add(3)).collect();
    let mut auxb = aux.clone().map(AuxBuf::new);
    if !lv.is_empty() && lv.len() <= 8 && crate::common::in_build_limits(lv) && !affordable(lv, alg, class) {
        w.report.count("skipped_valid_but_expensive", 1);
        return;
    }
    let out = libcall::keygen(alg, lv, &seed, auxb.as_mut());
    let r = &mut w.report;
    r.eval();
    r.count(&format!("keygen_{}", out.kind()), 1);
    let replay = || {
        J::obj()
            .with("property", J::s("C11"))
            .with("hash", J::s(alg.name()))
            .with("class", J::s(class))
            .with("detail", J::s(detail))
            .with("levels", J::s(&model::params::levels_to_string(lv)))
            .with("seed", J::hex(&seed))
            .with("aux", aux.as_ref().map(|a| J::hexa(a)).unwrap_or(J::Null))
    };
    let key = |what: &str, site: &str| format!("C11:{what}:{class}:{}:{site}", alg.name());
    let valid = !lv.is_empty() && lv.len() <= 8 && crate::common::in_build_limits(lv);
    match &out {
        Out::Panic(p) => r.violation(&key("panic:keygen", &p.site()), &format!("keygen panicked on a {class} input ({detail}): {} at {}", p.message, p.site()), replay()),
        Out::Ok(kp) => {
            if !valid {
                r.violation(&key("keygen_accepted_invalid_list", "-"), &format!("keygen accepted a parameter list of {} levels", lv.len()), replay());
            } else {
                let vk = hss::public_key(&cfg, &mut w.cache, lv, &seed);
                if kp.vk != vk || kp.sk != hss::make_blob(0, lv, &seed) {
                    w.report.violation(&key("keygen_wrong_result", "-"), &format!("keygen returned Ok with a key pair that differs from the model's ({class}, {detail})"), replay());
                }
                w.report.count("ok_results_checked", 1);
            }
        }
        Out::Err => {
            if valid {
                r.violation(&key("keygen_refused_valid_list", "-"), &format!("keygen refused a valid parameter list ({class}, {detail})"), replay());
            }
        }
    }
    w.report.distinct(&format!("{}|kg|{}|{}", alg.name(), class, detail));
}

fn run_task(t: Task, w: &mut Worker) {
    match t {
        Task::ParamLists(alg) => {
            let mixes: Vec<(u32, u32)> = vec![(2, 8), (2, 1), (5, 8), (2, 4)];
            for len in 0..=10usize {
                for (mi, base) in mixes.iter().enumerate() {
                    let lv: Vec<Level> = (0..len).map(|i| if i == 0 { Level { h: if base.0 == 2 { crate::common::h2() } else { base.0 }, w: if alg.is_shake() && base.0 == 5 { 4 } else { base.1 } } } else { Level { h: crate::common::h2(), w: [8, 4, 2, 1][(i + mi) % 4] } }).collect();
                    probe_keygen(w, alg, &lv, "parameter-list-length", &format!("len={len}:mix={mi}"), None);
                    if mi == 0 {
                        probe_keygen(w, alg, &lv, "parameter-list-length+aux", &format!("len={len}"), Some(vec![0u8; 200]));
                    }
                }
            }
        }
        Task::KeyLengths(alg) => {
            let lv = levels(&[(2, 8), (2, 4)]);
            let seed = vec![0x11u8; alg.n()];
            let full = hss::make_blob(1, &lv, &seed);
            for len in 0..=64usize {
                for fill in [0x00u8, 0xff, 0x5a] {
                    let mut b = full.clone();
                    b.resize(len, fill);
                    probe_key(w, alg, &b, "key-length", &format!("len={len}:fill={fill:#04x}"), None);
                }
            }
            // a few much longer ones
            for len in [65usize, 100, 1000] {
                let mut b = full.clone();
                b.resize(len, 0);
                probe_key(w, alg, &b, "key-length", &format!("len={len}"), None);
            }
        }
        Task::ParamBytes(alg, lv) => {
            let seed = vec![0x22u8; alg.n()];
            for pos in 0..8usize {
                for val in 0..=255u8 {

                    let mut b = hss::make_blob(0, &lv, &seed);
                    b[8 + pos] = val;
                    probe_key(w, alg, &b, &format!("parameter-byte:{}levels", lv.len()), &format!("pos={pos}:val={val:#04x}"), None);
                }
            }
        }
        Task::Counters(alg, lv) => {
            let seed = vec![0x33u8; alg.n()];
            let total = hss::total_leaves(&lv) as u64;
            for (name, c) in [
                ("lifetime-1", total - 1),
                ("lifetime", total),
                ("lifetime+1", total + 1),
                ("2^32", 1u64 << 32),
                ("2^63", 1u64 << 63),
                ("2^64-1", u64::MAX),
                ("2^64-total", u64::MAX - total + 1),
            ] {
                let b = hss::make_blob(c, &lv, &seed);
                probe_key(w, alg, &b, "counter", name, None);
                probe_key(w, alg, &b, "counter+aux", name, Some(vec![0u8; 300]));
            }
            probe_key(w, alg, &hss::wiped_blob(alg.n()), "wiped", "-", None);
            probe_key(w, alg, &hss::wiped_blob(alg.n()), "wiped+aux", "-", Some(vec![0u8; 300]));
            let mut zeros = hss::wiped_blob(alg.n());
            for b in zeros.iter_mut() {
                *b = 0;
            }
            probe_key(w, alg, &zeros, "all-zero-key", "-", None);
        }
        Task::Aux(alg, lv) => {
            let n = alg.n();
            let seed = vec![0x44u8; n];
            let blob = hss::make_blob(1, &lv, &seed);
            // aux lengths 0..8 (and around the header size) with zero / non-zero first byte
            let mut lens: Vec<usize> = (0..=8).collect();
            lens.extend([n, n + 3, n + 4, n + 5, 4 + 2 * n]);
            for len in lens {
                for first in [0x00u8, 0x01, 0x80, 0xff] {
                    let mut a = vec![0u8; len];
                    if len > 0 {
                        a[0] = first;
                    }
                    probe_key(w, alg, &blob, "aux-length", &format!("len={len}:first={first:#04x}"), Some(a.clone()));
                    probe_keygen(w, alg, &lv, "aux-length", &format!("len={len}:first={first:#04x}"), Some(a.clone()));
                    let mut g: Vec<u8> = (0..len).map(|i| (i as u8).wrapping_mul(37).wrapping_add(11)).collect();
                    if len > 0 {
                        g[0] = first;
                    }
                    probe_key(w, alg, &blob, "aux-length-garbage", &format!("len={len}:first={first:#04x}"), Some(g.clone()));
                    probe_keygen(w, alg, &lv, "aux-length-garbage", &format!("len={len}:first={first:#04x}"), Some(g));
                }
            }
            // level-word corruptions of an otherwise valid buffer
            let mut va = AuxBuf::new(vec![0u8; 4 + n + (n << (lv[0].h + 1))]);
            let _ = libcall::keygen(alg, &lv, &seed, Some(&mut va));
            let valid = va.used_part().to_vec();
            if valid.len() > 4 {
                let word = u32::from_be_bytes(valid[..4].try_into().unwrap());
                let mut words: Vec<u32> = (0..32).map(|b| word ^ (1 << b)).collect();
                words.extend([0, 1, u32::MAX, 0x8000_0000, 0x7fff_ffff, 0x0400_0000, 0x8400_0000, 0xc000_0000, 0x8000_0001, word | 0x7c00_0000, 0x8000_0000 | (1 << 25), 0x8000_0000 | (1 << 26)]);
                for wd in words {
                    for cut in [valid.len(), 4, 5, 4 + n, valid.len() - 1] {
                        let mut a = valid[..cut].to_vec();
                        a[..4].copy_from_slice(&wd.to_be_bytes());
                        probe_key(w, alg, &blob, "aux-level-word", &format!("word={wd:#010x}:len={cut}"), Some(a.clone()));
                        probe_keygen(w, alg, &lv, "aux-level-word", &format!("word={wd:#010x}:len={cut}"), Some(a));
                    }
                }
            }
        }
    }
}

/// Miri stage: the part of the grid that fails before any tree is built (key lengths, parameter
/// bytes, counters, wiped key, over-long lists) for two hashes, plus one complete keygen + sign of
/// a 4-leaf W1 key with a fresh, a valid and a truncated aux buffer; this shard's share.
fn run_miri(ctx: &Ctx) -> Report {
    enum M {
        T(Task),
        /// one key with one parameter byte replaced (a well-formed length, so parsing gets as far
        /// as the parameter decoding: about a second per call in the interpreter)
        ParamByte(Alg, Vec<Level>, usize, u8),
        EndToEnd(Alg),
    }
    let mut items: Vec<M> = Vec::new();
    for alg in [Alg::Sha256_128, Alg::Shake256_192] {
        items.push(M::T(Task::ParamLists(alg)));
        items.push(M::T(Task::KeyLengths(alg)));
        items.push(M::T(Task::Counters(alg, levels(&[(2, 1)]))));
        items.push(M::T(Task::Counters(alg, levels(&[(2, 4), (2, 8), (2, 2)]))));
        for lv in [levels(&[(2, 1)]), (0..8).map(|_| Level { h: crate::common::h2(), w: 8 }).collect::<Vec<Level>>()] {
            for pos in [0usize, 1, 7] {
                for val in if ctx.quick() { vec![0x00u8, 0x10, 0x15, 0x5f, 0xa1, 0xfe] } else { vec![0x00u8, 0x01, 0x0f, 0x10, 0x15, 0x1f, 0x50, 0x55, 0x5f, 0x95, 0xa1, 0xf1, 0xfe] } {
                    items.push(M::ParamByte(alg, lv.clone(), pos, val));
                }
            }
        }
    }
    // a complete keygen + sign costs the interpreter about a quarter of an hour: thorough only
    if !ctx.quick() {
        items.push(M::EndToEnd(Alg::Sha256_128));
        items.push(M::EndToEnd(Alg::Shake256_128));
    }
    let mut w = Worker { id: 0, report: Report::new(), cache: model::lms::TreeCache::new() };
    for (i, it) in items.into_iter().enumerate() {
        if !ctx.mine(i) {
            continue;
        }
        match it {
            M::T(t) => run_task(t, &mut w),
            M::ParamByte(alg, lv, pos, val) => {
                let mut b = hss::make_blob(0, &lv, &vec![0x22u8; alg.n()]);
                b[8 + pos] = val;
                probe_key(&mut w, alg, &b, &format!("parameter-byte:{}levels", lv.len()), &format!("pos={pos}:val={val:#04x}"), None);
            }
            M::EndToEnd(alg) => {
                let lv = levels(&[(2, 1)]);
                let seed = vec![0x44u8; alg.n()];
                let blob = hss::make_blob(1, &lv, &seed);
                probe_keygen(&mut w, alg, &lv, "miri-end-to-end", "no-aux", None);
                let mut va = AuxBuf::new(vec![0u8; 4 + alg.n() + (alg.n() << 3)]);
                let _ = libcall::keygen(alg, &lv, &seed, Some(&mut va));
                let valid = va.used_part().to_vec();
                probe_key(&mut w, alg, &blob, "miri-end-to-end", "valid-aux", Some(valid.clone()));
                if valid.len() > 6 {
                    probe_key(&mut w, alg, &blob, "miri-end-to-end", "truncated-aux", Some(valid[..valid.len() - 3].to_vec()));
                }
                w.report.count("miri_end_to_end", 1);
            }
        }
    }
    let mut rep = w.report;
    rep.rule = "Miri stage: the share of the malformed-input grid that fails before any tree is built (parameter-list lengths 0..10, key lengths 0..64, a spread of invalid values in the first, second and last parameter byte of 1- and 8-level keys, counters at/beyond the lifetime, wiped key) for a SHA-256 and a SHAKE variant, plus one complete keygen + sign of a 4-leaf W1 key without aux, with valid aux and with truncated aux, under the interpreter (debug profile); same oracles as the native stage".into();
    if rep.evaluations == 0 && ctx.shard == 0 {
        rep.inconclusive("the interpreter evaluated nothing");
    }
    rep
}

pub fn run(ctx: &Ctx) -> Report {
    if ctx.miri {
        return run_miri(ctx);
    }
    let mut tasks = Vec::new();
    // the hooks-off pass (production heights only, so every valid key costs 8x more) covers three
    // of the six hashes in the quick tier
    let algs: Vec<Alg> = if !cfg!(feature = "hooks") && ctx.quick() { vec![Alg::Sha256_256, Alg::Sha256_128, Alg::Shake256_192] } else { model::ALL_ALGS.to_vec() };
    for alg in algs {
        tasks.push(Task::ParamLists(alg));
        tasks.push(Task::KeyLengths(alg));
        tasks.push(Task::ParamBytes(alg, levels(&[(2, 8)])));
        tasks.push(Task::ParamBytes(alg, levels(&[(2, 4), (2, 8)])));
        tasks.push(Task::ParamBytes(alg, (0..8).map(|_| Level { h: crate::common::h2(), w: 8 }).collect()));
        tasks.push(Task::Counters(alg, levels(&[(2, 8)])));
        tasks.push(Task::Counters(alg, levels(&[(2, 4), (2, 8), (2, 2)])));
        tasks.push(Task::Aux(alg, levels(&[(2, 8), (2, 4)])));
        let w5 = if alg.is_shake() { 2 } else { 8 };
        if !ctx.quick() || !alg.is_shake() {
            tasks.push(Task::Aux(alg, levels(&[(5, w5)])));
        }
    }
    let mut rep = par_run(ctx, tasks, |t, w| run_task(t, w));
    rep.exhaustive = Some(true);
    rep.rule = "enumerated fault grid under all 6 hashes: keygen with parameter lists of 0..10 levels (with and without aux); sign (callback accept/refuse), try_sign_with_aux, get_lifetime, SigningKey::from_bytes on key bytes of every length 0..64 (+longer), with all 256 values of each of the 8 parameter bytes of 1-, 2- and 8-level keys, with counters lifetime-1, lifetime, lifetime+1, 2^32, 2^63, 2^64-1, on the wiped and the all-zero key; keygen and sign with aux buffers of length 0..8 (and around the header size) with zero/non-zero first byte and garbage, and with every single-bit and a dozen wild corruptions of the level word of a valid buffer at several lengths; \
                oracles: no panic; no callback invocation on error paths; Ok results must verify and equal the model's result for the state the bytes encode (well-formed keys whose trees are unaffordable are skipped and counted); distinct_nontrivial = distinct (hash, fault class, detail)"
        .into();
    if rep.counter("sign_err") == 0 || rep.counter("sign_ok") == 0 {
        rep.inconclusive("did not observe both failing and succeeding sign calls");
    }
    if rep.counter("keygen_err") == 0 {
        rep.inconclusive("no refused keygen observed");
    }
    shared::add_assumptions(&mut rep);
    rep
}
