#![allow(dead_code)]
//! hbsmon: runtime monitors for hbs-lms-rust, one driver per property.
//!
//! usage: hbsmon <C01..C16|calib> [--tier quick|thorough] [--seed N] [--out file.json]
//!               [--replay file.json] [--threads N]
//! The process writes a result document (JSON) and exits 0 (the driver ran; the wrapper decides
//! the verdict from the document) or 3 (the driver itself failed).

mod calib;
mod common;
mod libcall;
mod props;
mod spy;

use std::path::PathBuf;
use std::time::Instant;

use common::{Ctx, Tier};
use model::J;

fn main() {
    let args: Vec<String> = std::env::args().collect();
    if args.len() < 2 {
        eprintln!("usage: hbsmon <property|calib> [--tier quick|thorough] [--seed N] [--out file] [--replay file]");
        std::process::exit(3);
    }
    let what = args[1].clone();
    let mut tier = match std::env::var("VERIF_TIER").ok().as_deref() {
        Some("thorough") => Tier::Thorough,
        _ => Tier::Quick,
    };
    let mut seed: u64 = std::env::var("VERIF_SEED").ok().and_then(|s| s.parse().ok()).unwrap_or(1);
    let mut out: Option<PathBuf> = None;
    let mut replay: Option<PathBuf> = None;
    let mut threads = std::thread::available_parallelism().map(|n| n.get()).unwrap_or(4);
    let mut extra: Vec<String> = Vec::new();
    let mut shard = (0usize, 1usize);
    let mut i = 2;
    while i < args.len() {
        match args[i].as_str() {
            "--tier" => {
                tier = if args[i + 1] == "thorough" { Tier::Thorough } else { Tier::Quick };
                i += 1;
            }
            "--seed" => {
                seed = args[i + 1].parse().expect("seed");
                i += 1;
            }
            "--out" => {
                out = Some(PathBuf::from(&args[i + 1]));
                i += 1;
            }
            "--replay" => {
                replay = Some(PathBuf::from(&args[i + 1]));
                i += 1;
            }
            "--shard" => {
                let mut it = args[i + 1].split('/');
                shard = (it.next().unwrap().parse().expect("shard"), it.next().unwrap().parse().expect("shards"));
                i += 1;
            }
            "--threads" => {
                threads = args[i + 1].parse().expect("threads");
                i += 1;
            }
            other => extra.push(other.to_string()),
        }
        i += 1;
    }
    let verif_root = std::env::var("VERIF_ROOT").unwrap_or_else(|_| "/verif".to_string());
    let scratch = PathBuf::from(std::env::var("VERIF_SCRATCH").unwrap_or_else(|_| format!("{verif_root}/target/scratch")));
    let _ = std::fs::create_dir_all(&scratch);
    let scale = std::env::var("VERIF_SCALE").ok().and_then(|s| s.parse().ok()).unwrap_or(1.0);
    let ctx = Ctx {
        tier,
        seed,
        threads,
        scratch,
        ref_tool: PathBuf::from(format!("{verif_root}/ref/hash-sigs-demo")),
        replay,
        scale,
        miri: cfg!(miri) || std::env::var("VERIF_MIRI").is_ok(),
        shard: shard.0,
        shards: shard.1.max(1),
    };
    common::set_miri_mode(ctx.miri);
    libcall::install_panic_hook();

    let t0 = Instant::now();
    let doc = if what == "calib" {
        match calib::run(&ctx) {
            Ok(lines) => J::obj().with("calibration", J::s("ok")).with("checked", J::Arr(lines.iter().map(|l| J::s(l)).collect())),
            Err(e) => J::obj().with("calibration", J::s("failed")).with("error", J::s(&e)),
        }
    } else if props::is_worker(&what) {
        props::run_worker(&what, &ctx, &extra);
        return;
    } else {
        let report = common::on_big_stack(|| props::run(&what, &ctx, &extra));
        match report {
            Some(r) => r.to_json().with("property", J::s(&what)),
            None => {
                eprintln!("unknown property {what}");
                std::process::exit(3);
            }
        }
    };
    let doc = doc
        .with("tier", J::s(if ctx.quick() { "quick" } else { "thorough" }))
        .with("seed", J::Int(seed as i128))
        .with("hooks", J::Bool(cfg!(feature = "hooks")))
        .with("miri", J::Bool(ctx.miri))
        .with("shard", J::s(&format!("{}/{}", ctx.shard, ctx.shards)))
        .with("wall_s", J::Num(t0.elapsed().as_secs_f64()));
    let text = doc.to_string();
    match out {
        Some(p) => common::write_file(&p, &text),
        None => println!("{text}"),
    }
}
