//! Every call into the library under test goes through here: dispatch on the hash type,
//! `catch_unwind`, panic capture, callback recording.

use std::cell::RefCell;
use std::panic::{catch_unwind, AssertUnwindSafe};

use hbs_lms::signature::{Signature as _, SignerMut, Verifier};
use hbs_lms::{HssParameter, LmotsAlgorithm, LmsAlgorithm, Seed, SigningKey, VerifyingKey};
use model::{Alg, Level};

#[macro_export]
macro_rules! with_hash {
    ($alg:expr, $H:ident, $body:expr) => {
        match $alg {
            model::Alg::Sha256_256 => {
                type $H = hbs_lms::Sha256_256;
                $body
            }
            model::Alg::Sha256_192 => {
                type $H = hbs_lms::Sha256_192;
                $body
            }
            model::Alg::Sha256_128 => {
                type $H = hbs_lms::Sha256_128;
                $body
            }
            model::Alg::Shake256_256 => {
                type $H = hbs_lms::Shake256_256;
                $body
            }
            model::Alg::Shake256_192 => {
                type $H = hbs_lms::Shake256_192;
                $body
            }
            model::Alg::Shake256_128 => {
                type $H = hbs_lms::Shake256_128;
                $body
            }
        }
    };
}

#[derive(Clone, Debug, PartialEq, Eq)]
pub struct PanicInfo {
    pub message: String,
    /// file:line of the panic site
    pub location: String,
}

impl PanicInfo {
    /// location relative to the repository, without the column
    pub fn site(&self) -> String {
        let l = self.location.trim_start_matches("/repo/");
        l.to_string()
    }
}

thread_local! {
    static LAST_PANIC: RefCell<Option<PanicInfo>> = const { RefCell::new(None) };
    /// nesting depth of `guard` on this thread (panics are recorded, not printed, while > 0)
    static QUIET: RefCell<u32> = const { RefCell::new(0) };
}

/// Install once: panics inside `guard` are recorded instead of printed.
pub fn install_panic_hook() {
    let default = std::panic::take_hook();
    std::panic::set_hook(Box::new(move |info| {
        let quiet = QUIET.with(|q| *q.borrow());
        if quiet == 0 {
            default(info);
            return;
        }
        let message = if let Some(s) = info.payload().downcast_ref::<&str>() {
            s.to_string()
        } else if let Some(s) = info.payload().downcast_ref::<String>() {
            s.clone()
        } else {
            "<non-string panic>".to_string()
        };
        let location = info
            .location()
            .map(|l| format!("{}:{}", l.file(), l.line()))
            .unwrap_or_else(|| "<unknown>".to_string());
        LAST_PANIC.with(|p| *p.borrow_mut() = Some(PanicInfo { message, location }));
    }));
}

#[derive(Clone, Debug, PartialEq, Eq)]
pub enum Out<T> {
    Ok(T),
    Err,
    Panic(PanicInfo),
}

impl<T> Out<T> {
    pub fn is_ok(&self) -> bool {
        matches!(self, Out::Ok(_))
    }
    pub fn is_err(&self) -> bool {
        matches!(self, Out::Err)
    }
    pub fn panic(&self) -> Option<&PanicInfo> {
        match self {
            Out::Panic(p) => Some(p),
            _ => None,
        }
    }
    pub fn ok(self) -> Option<T> {
        match self {
            Out::Ok(t) => Some(t),
            _ => None,
        }
    }
    pub fn as_ref(&self) -> Out<&T> {
        match self {
            Out::Ok(t) => Out::Ok(t),
            Out::Err => Out::Err,
            Out::Panic(p) => Out::Panic(p.clone()),
        }
    }
    pub fn kind(&self) -> &'static str {
        match self {
            Out::Ok(_) => "ok",
            Out::Err => "err",
            Out::Panic(_) => "panic",
        }
    }
    pub fn describe_val(&self) -> String
    where
        T: std::fmt::Debug,
    {
        match self {
            Out::Ok(t) => format!("Ok({t:?})"),
            other => other.describe(),
        }
    }
    pub fn describe(&self) -> String {
        match self {
            Out::Ok(_) => "Ok".into(),
            Out::Err => "Err".into(),
            Out::Panic(p) => format!("PANIC at {}: {}", p.site(), p.message),
        }
    }
}

/// run `f`, turning a panic into `Err(PanicInfo)`
pub fn guard<T>(f: impl FnOnce() -> T) -> Result<T, PanicInfo> {
    QUIET.with(|q| *q.borrow_mut() += 1);
    LAST_PANIC.with(|p| *p.borrow_mut() = None);
    let r = catch_unwind(AssertUnwindSafe(f));
    QUIET.with(|q| *q.borrow_mut() -= 1);
    match r {
        Ok(t) => Ok(t),
        Err(_) => Err(LAST_PANIC.with(|p| p.borrow_mut().take()).unwrap_or(PanicInfo {
            message: "<panic not captured>".into(),
            location: "<unknown>".into(),
        })),
    }
}

fn out_of<T, E>(r: Result<Result<T, E>, PanicInfo>) -> Out<T> {
    match r {
        Ok(Ok(t)) => Out::Ok(t),
        Ok(Err(_)) => Out::Err,
        Err(p) => Out::Panic(p),
    }
}

/// The library's seed object for `bytes` (n bytes).  The public API offers two constructions:
/// `Seed::default()` + `as_mut_slice()`, and `Seed::from([u8; 32])`, whose backing buffer is 32
/// bytes for every hash — for the 16/24-byte hashes the bytes beyond n are not part of the seed.
/// Which one is used is a deterministic function of the seed bytes (so that re-evaluations of the
/// same case stay comparable); in the second form the surplus bytes are non-zero junk, which must
/// not influence anything.
pub fn seed_of<H: hbs_lms::HashChain>(bytes: &[u8]) -> Seed<H> {
    let n = bytes.len();
    let from_array = n < 32 && bytes.iter().fold(0u8, |a, b| a.wrapping_add(*b)) & 1 == 1;
    if from_array {
        let mut arr = [0u8; 32];
        arr[..n].copy_from_slice(bytes);
        for i in n..32 {
            arr[i] = (bytes[i % n] ^ 0xc3) | 1;
        }
        return Seed::<H>::from(arr);
    }
    let mut s = Seed::<H>::default();
    s.as_mut_slice().copy_from_slice(bytes);
    s
}

/// library parameter objects for the given levels; construction itself may panic in the library
/// (`HssParameter::new` has an `expect`), which is why this is only called under `guard`.
fn lib_params<H: hbs_lms::HashChain>(levels: &[Level]) -> Vec<HssParameter<H>> {
    levels
        .iter()
        .map(|l| {
            HssParameter::<H>::new(
                LmotsAlgorithm::from(model::params::code_of_w(l.w)),
                LmsAlgorithm::from(model::params::lms_code_of_height(l.h)),
            )
        })
        .collect()
}

/// An aux buffer handed to the library, with a record of how the library shrank it.
#[derive(Clone, Debug, PartialEq, Eq)]
pub struct AuxBuf {
    pub buf: Vec<u8>,
    /// length of the caller's slice after the call (the library shrinks fresh buffers)
    pub used: usize,
}

impl AuxBuf {
    pub fn new(buf: Vec<u8>) -> AuxBuf {
        let used = buf.len();
        AuxBuf { buf, used }
    }
    pub fn used_part(&self) -> &[u8] {
        &self.buf[..self.used]
    }
}

pub struct KeyPair {
    pub sk: Vec<u8>,
    pub vk: Vec<u8>,
}

pub fn keygen(alg: Alg, levels: &[Level], seed: &[u8], aux: Option<&mut AuxBuf>) -> Out<KeyPair> {
    with_hash!(alg, H, {
        out_of(guard(|| {
            let params = lib_params::<H>(levels);
            let seed = seed_of::<H>(seed);
            let r = match aux {
                Some(a) => {
                    let cur = a.used;
                    let mut slice: &mut [u8] = &mut a.buf[..cur];
                    let r = hbs_lms::keygen::<H>(&params, &seed, Some(&mut slice));
                    a.used = slice.len();
                    r
                }
                None => hbs_lms::keygen::<H>(&params, &seed, None),
            };
            r.map(|(sk, vk)| KeyPair { sk: sk.as_slice().to_vec(), vk: vk.as_slice().to_vec() })
        }))
    })
}

/// keygen with raw (possibly invalid) type codes per level; used by C11
pub fn keygen_codes(alg: Alg, codes: &[(u32, u32)], seed: &[u8]) -> Out<KeyPair> {
    with_hash!(alg, H, {
        out_of(guard(|| {
            let params: Vec<HssParameter<H>> = codes
                .iter()
                .map(|(lms, ots)| HssParameter::<H>::new(LmotsAlgorithm::from(*ots), LmsAlgorithm::from(*lms)))
                .collect();
            let seed = seed_of::<H>(seed);
            hbs_lms::keygen::<H>(&params, &seed, None)
                .map(|(sk, vk)| KeyPair { sk: sk.as_slice().to_vec(), vk: vk.as_slice().to_vec() })
        }))
    })
}

#[derive(Clone, Copy, Debug, PartialEq, Eq, Hash)]
pub enum Cb {
    Accept,
    Refuse,
    /// fails on its first invocation within a call and would accept a second one (a storage layer
    /// with a transient fault; the library must not invoke the callback a second time)
    FailOnce,
}

#[derive(Clone, Copy, Debug, PartialEq, Eq, Hash)]
pub enum SignEntry {
    /// `hbs_lms::sign::<H>` with an explicit update callback
    Bytes,
    /// `SigningKey::try_sign`
    TrySign,
    /// `SigningKey::try_sign_with_aux`
    TrySignAux,
}

pub struct SignRec {
    pub result: Out<Vec<u8>>,
    /// arguments of every callback invocation, in order (for the SigningKey entries: inferred,
    /// see `key_after`)
    pub cb_args: Vec<Vec<u8>>,
    /// whether the call had already returned when a callback invocation happened (must be empty)
    pub late_callbacks: usize,
    /// SigningKey entries: bytes of the in-memory key after the call
    pub key_after: Option<Vec<u8>>,
}

/// Sign through the byte-level entry point with a scripted, recording callback.
pub fn sign_bytes(alg: Alg, blob: &[u8], msg: &[u8], script: Cb, aux: Option<&mut AuxBuf>) -> SignRec {
    let mut cb_args: Vec<Vec<u8>> = Vec::new();
    let result = with_hash!(alg, H, {
        let cbref = &mut cb_args;
        out_of(guard(move || {
            let mut cb = |new_key: &[u8]| -> Result<(), ()> {
                cbref.push(new_key.to_vec());
                match script {
                    Cb::Accept => Ok(()),
                    Cb::Refuse => Err(()),
                    Cb::FailOnce => if cbref.len() == 1 { Err(()) } else { Ok(()) },
                }
            };
            let r = match aux {
                Some(a) => {
                    let cur = a.used;
                    let mut slice: &mut [u8] = &mut a.buf[..cur];
                    let r = hbs_lms::sign::<H>(msg, blob, &mut cb, Some(&mut slice));
                    a.used = slice.len();
                    r
                }
                None => hbs_lms::sign::<H>(msg, blob, &mut cb, None),
            };
            r.map(|s| s.as_ref().to_vec())
        }))
    });
    SignRec { result, cb_args, late_callbacks: 0, key_after: None }
}

/// Sign through the byte-level entry point with a callback that crashes (panics) after having
/// seen the new key: models a storage layer failing in the middle of persisting.
pub fn sign_bytes_crashing(alg: Alg, blob: &[u8], msg: &[u8]) -> SignRec {
    let mut cb_args: Vec<Vec<u8>> = Vec::new();
    let result = with_hash!(alg, H, {
        let cbref = &mut cb_args;
        out_of(guard(move || {
            let mut cb = |new_key: &[u8]| -> Result<(), ()> {
                cbref.push(new_key.to_vec());
                panic!("verif: storage crashed while persisting");
            };
            hbs_lms::sign::<H>(msg, blob, &mut cb, None).map(|s| s.as_ref().to_vec())
        }))
    });
    SignRec { result, cb_args, late_callbacks: 0, key_after: None }
}

/// Sign through `SigningKey` (which installs its own, always-accepting callback).
pub fn sign_key(alg: Alg, blob: &[u8], msg: &[u8], entry: SignEntry, aux: Option<&mut AuxBuf>) -> SignRec {
    let mut key_after: Option<Vec<u8>> = None;
    let result = with_hash!(alg, H, {
        let ka = &mut key_after;
        out_of(guard(move || {
            let mut key = SigningKey::<H>::from_bytes(blob)?;
            let r = match (entry, aux) {
                (SignEntry::TrySign, _) => key.try_sign(msg),
                (_, Some(a)) => {
                    let cur = a.used;
                    let mut slice: &mut [u8] = &mut a.buf[..cur];
                    let r = key.try_sign_with_aux(msg, Some(&mut slice));
                    a.used = slice.len();
                    r
                }
                (_, None) => key.try_sign_with_aux(msg, None),
            };
            *ka = Some(key.as_slice().to_vec());
            r.map(|s| s.as_ref().to_vec())
        }))
    });
    SignRec { result, cb_args: Vec::new(), late_callbacks: 0, key_after }
}

/// One operation on a long-lived `SigningKey` object.
#[derive(Clone, Debug)]
pub enum KeyOp {
    /// `SignerMut::try_sign`
    TrySign(Vec<u8>),
    /// `try_sign_with_aux(msg, None)`
    TrySignAuxNone(Vec<u8>),
    /// `get_lifetime()`
    Lifetime,
    /// read `as_slice()`
    Bytes,
    /// overwrite the key through `as_mut_slice()` (same length only)
    Overwrite(Vec<u8>),
}

#[derive(Clone, Debug, PartialEq, Eq)]
pub enum KeyObs {
    Signed(Out<Vec<u8>>),
    Lifetime(Out<u64>),
    Bytes(Vec<u8>),
    Overwritten(bool),
}

/// Run a sequence of operations on ONE `SigningKey` object that lives for the whole sequence —
/// the object `keygen` returned (`from_keygen`) or one loaded with `from_bytes(start)`.  Every
/// other helper in this file creates a fresh object per call; state that a key object carries
/// besides its bytes is only visible here.  Returns the verifying key bytes (if generated) and
/// one observation per operation; `None` if the object could not be created.
pub fn key_object_session(alg: Alg, levels: &[Level], seed: &[u8], from_keygen: bool, start: &[u8], ops: &[KeyOp]) -> Option<(Vec<u8>, Vec<KeyObs>)> {
    with_hash!(alg, H, {
        let created = guard(|| {
            if from_keygen {
                let params = lib_params::<H>(levels);
                hbs_lms::keygen::<H>(&params, &seed_of::<H>(seed), None).ok().map(|(sk, vk)| (sk, vk.as_slice().to_vec()))
            } else {
                SigningKey::<H>::from_bytes(start).ok().map(|sk| (sk, Vec::new()))
            }
        });
        let (mut key, vk) = match created {
            Ok(Some(x)) => x,
            _ => return None,
        };
        let mut obs = Vec::with_capacity(ops.len());
        for op in ops {
            let k = &mut key;
            let o = match op {
                KeyOp::TrySign(m) => KeyObs::Signed(out_of(guard(|| k.try_sign(m).map(|s| s.as_ref().to_vec())))),
                KeyOp::TrySignAuxNone(m) => KeyObs::Signed(out_of(guard(|| k.try_sign_with_aux(m, None).map(|s| s.as_ref().to_vec())))),
                KeyOp::Lifetime => KeyObs::Lifetime(out_of(guard(|| k.get_lifetime()))),
                KeyOp::Bytes => KeyObs::Bytes(k.as_slice().to_vec()),
                KeyOp::Overwrite(b) => {
                    let dst = k.as_mut_slice();
                    if dst.len() == b.len() {
                        dst.copy_from_slice(b);
                        KeyObs::Overwritten(true)
                    } else {
                        KeyObs::Overwritten(false)
                    }
                }
            };
            obs.push(o);
        }
        Some((vk, obs))
    })
}

pub fn signing_key_from_bytes(alg: Alg, blob: &[u8]) -> Out<Vec<u8>> {
    with_hash!(alg, H, {
        out_of(guard(|| SigningKey::<H>::from_bytes(blob).map(|k| k.as_slice().to_vec())))
    })
}

pub fn lifetime(alg: Alg, blob: &[u8]) -> Out<u64> {
    with_hash!(alg, H, {
        out_of(guard(|| {
            let key = SigningKey::<H>::from_bytes(blob)?;
            key.get_lifetime()
        }))
    })
}

#[derive(Clone, Copy, Debug, PartialEq, Eq, Hash)]
pub enum VerifyEntry {
    /// `hbs_lms::verify::<H>(msg, sig, pk)`
    Bytes,
    /// `VerifyingKey::from_bytes` + `Signature::from_bytes` + `Verifier::verify`
    KeySignature,
    /// `VerifyingKey::from_bytes` + `VerifierSignature::from_ref` + `Verifier::verify`
    KeyRefSignature,
}

pub const VERIFY_ENTRIES: [VerifyEntry; 3] =
    [VerifyEntry::Bytes, VerifyEntry::KeySignature, VerifyEntry::KeyRefSignature];

impl VerifyEntry {
    pub fn name(self) -> &'static str {
        match self {
            VerifyEntry::Bytes => "verify",
            VerifyEntry::KeySignature => "VerifyingKey+Signature",
            VerifyEntry::KeyRefSignature => "VerifyingKey+VerifierSignature",
        }
    }
}

pub fn verify(alg: Alg, msg: &[u8], sig: &[u8], pk: &[u8], entry: VerifyEntry) -> Out<()> {
    with_hash!(alg, H, {
        out_of(guard(|| match entry {
            VerifyEntry::Bytes => hbs_lms::verify::<H>(msg, sig, pk),
            VerifyEntry::KeySignature => {
                let vk = VerifyingKey::<H>::from_bytes(pk)?;
                let s = hbs_lms::Signature::from_bytes(sig)?;
                vk.verify(msg, &s)
            }
            VerifyEntry::KeyRefSignature => {
                let vk = VerifyingKey::<H>::from_bytes(pk)?;
                let s = hbs_lms::VerifierSignature::from_ref(sig)?;
                vk.verify(msg, &s)
            }
        }))
    })
}

/// does the byte-level constructor accept these bytes (never mind verification)
pub fn signature_from_bytes(sig: &[u8]) -> Out<usize> {
    out_of(guard(|| hbs_lms::Signature::from_bytes(sig).map(|s| s.as_ref().len())))
}

pub fn verifying_key_from_bytes(alg: Alg, pk: &[u8]) -> Out<usize> {
    with_hash!(alg, H, { out_of(guard(|| VerifyingKey::<H>::from_bytes(pk).map(|k| k.as_slice().len()))) })
}

/// `hbs_lms::sign_mut` (feature fast_verify) with a recording callback; the message is updated
/// in place.  Also returns the `hash_iterations` the library reports (feature verbose).
#[cfg(feature = "fv")]
pub fn sign_mut(alg: Alg, blob: &[u8], msg: &mut Vec<u8>, script: Cb) -> (SignRec, Option<u32>) {
    let mut cb_args: Vec<Vec<u8>> = Vec::new();
    let mut iterations: Option<u32> = None;
    let result = with_hash!(alg, H, {
        let cbref = &mut cb_args;
        let it = &mut iterations;
        out_of(guard(move || {
            let mut cb = |new_key: &[u8]| -> Result<(), ()> {
                cbref.push(new_key.to_vec());
                match script {
                    Cb::Accept => Ok(()),
                    Cb::Refuse => Err(()),
                    Cb::FailOnce => if cbref.len() == 1 { Err(()) } else { Ok(()) },
                }
            };
            hbs_lms::sign_mut::<H>(msg.as_mut_slice(), blob, &mut cb, None).map(|s| {
                *it = Some(s.hash_iterations);
                s.as_ref().to_vec()
            })
        }))
    });
    (SignRec { result, cb_args, late_callbacks: 0, key_after: None }, iterations)
}
