#!/usr/bin/env python3
"""Confirm seeded changes independently: in a scratch worktree of /repo's HEAD, apply the patch,
build, run the repository's own suite (must stay green), run the demonstration (must fail), undo
the patch, run the demonstration again (must pass).  Results go into seeded/<id>/meta.json under
"confirmation".  Usage: confirm_seeded.py [ids...] [-j N]"""
import json, os, re, subprocess, sys, shutil
from concurrent.futures import ThreadPoolExecutor
import threading, queue

SEEDED = '/verif/seeded'
SCRATCH = '/tmp/sw'

def sh(cmd, cwd, env=None, timeout=3600):
    e = dict(os.environ); e['CARGO_NET_OFFLINE'] = 'true'
    if env: e.update(env)
    try:
        p = subprocess.run(cmd, shell=True, cwd=cwd, env=e, stdout=subprocess.PIPE, stderr=subprocess.STDOUT, timeout=timeout)
        return p.returncode, p.stdout.decode('utf-8', 'replace')
    except subprocess.TimeoutExpired as ex:
        return 124, (ex.stdout or b'').decode('utf-8', 'replace') + '\nTIMEOUT'

def demo_command(meta):
    cmd = meta['demo_cmd']
    m = re.search(r'((?:[A-Z_]+=(?:"[^"]*"|\S+)\s+)*cargo (?:test|run)[^()\n]*)', cmd)
    c = m.group(1).strip().rstrip('.;,')
    return c

def confirm(sid, slot):
    d = os.path.join(SEEDED, sid)
    meta = json.load(open(os.path.join(d, 'meta.json')))
    pid, n = sid.split('-')
    wt = os.path.join(SCRATCH, sid)
    target = os.path.join(SCRATCH, f'target-slot-{slot}')
    env = {'CARGO_TARGET_DIR': target}
    res = {}
    subprocess.run(['git', '-C', '/repo', 'worktree', 'remove', '--force', wt], stdout=subprocess.DEVNULL, stderr=subprocess.DEVNULL)
    shutil.rmtree(wt, ignore_errors=True)
    subprocess.run(['git', '-C', '/repo', 'worktree', 'prune'])
    c, o = sh(f'git -C /repo worktree add -q --detach {wt} HEAD', '/repo')
    if c != 0:
        res['error'] = 'worktree: ' + o[-300:]; return sid, res
    try:
        res['base'] = subprocess.run(['git', '-C', '/repo', 'rev-parse', '--short', 'HEAD'], stdout=subprocess.PIPE).stdout.decode().strip()
        patch = os.path.join(d, 'patch.diff')
        c, o = sh(f'git apply --check {patch}', wt)
        if c != 0:
            c, o = sh(f'git apply --3way {patch}', wt)
            res['applied'] = '3way' if c == 0 else 'FAILED: ' + o[-400:]
            if c != 0:
                return sid, res
            sh('git reset -q', wt)
        else:
            sh(f'git apply {patch}', wt); res['applied'] = 'clean'
        feats = ['', '--features verif_hooks'] + (['--features fast_verify,verif_hooks'] if pid == 'C15' else [])
        for f in feats:
            c, o = sh(f'cargo build --offline {f}', wt, env)
            if c != 0:
                res['build'] = f'FAILED ({f}): ' + o[-600:]; return sid, res
        res['build'] = 'ok'
        c, o = sh('cargo test --workspace --no-fail-fast --offline', wt, env)
        passed = sum(int(x) for x in re.findall(r'test result: ok\. (\d+) passed', o))
        failed = sum(int(x) for x in re.findall(r'(\d+) failed', o))
        res['suite'] = {'exit': c, 'passed_incl_doctests': passed, 'failed': failed}
        kind = meta.get('demo_kind', 'test')
        sub = 'examples' if kind == 'example' else 'tests'
        dst = os.path.join(wt, sub, f'demo_{pid}_{n}.rs')
        shutil.copy(os.path.join(d, 'demo.rs'), dst)
        cmd = demo_command(meta)
        res['demo_cmd'] = cmd
        c1, o1 = sh(cmd, wt, env, timeout=2400)
        res['demo_with_change'] = {'exit': c1, 'tail': o1[-500:]}
        # undo the library change only
        sh(f'git apply -R {patch}', wt) if res['applied'] == 'clean' else sh('git checkout -- src build.rs Cargo.toml', wt)
        c2, o2 = sh(cmd, wt, env, timeout=2400)
        res['demo_without_change'] = {'exit': c2, 'tail': o2[-300:]}
        res['confirmed'] = bool(res['suite']['exit'] == 0 and failed == 0 and c1 != 0 and c2 == 0)
    finally:
        subprocess.run(['git', '-C', '/repo', 'worktree', 'remove', '--force', wt], stdout=subprocess.DEVNULL, stderr=subprocess.DEVNULL)
        shutil.rmtree(wt, ignore_errors=True)
    return sid, res

def main():
    args = sys.argv[1:]
    j = 4
    if '-j' in args:
        i = args.index('-j'); j = int(args[i + 1]); del args[i:i + 2]
    ids = args or sorted(os.listdir(SEEDED))
    ids = [i for i in ids if os.path.isdir(os.path.join(SEEDED, i))]
    os.makedirs(SCRATCH, exist_ok=True)
    slots = queue.Queue()
    for k in range(j): slots.put(k)
    def work(sid):
        k = slots.get()
        try:
            sid, res = confirm(sid, k)
        except Exception as e:
            res = {'error': repr(e)}
        finally:
            slots.put(k)
        mp = os.path.join(SEEDED, sid, 'meta.json')
        m = json.load(open(mp)); m['confirmation'] = res
        json.dump(m, open(mp, 'w'), indent=1)
        print(sid, 'confirmed' if res.get('confirmed') else 'NOT CONFIRMED', {k: v for k, v in res.items() if k in ('applied', 'build', 'suite', 'error')}, flush=True)
    with ThreadPoolExecutor(j) as ex:
        list(ex.map(work, ids))
    for k in range(j):
        shutil.rmtree(os.path.join(SCRATCH, f'target-slot-{k}'), ignore_errors=True)

if __name__ == '__main__':
    main()
