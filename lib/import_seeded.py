#!/usr/bin/env python3
"""Import the deliverables of a sub-agent round (/tmp/sw2/out/<Cxx>/{a,b}/) into
/verif/seeded/<Cxx>-<n>/ with the next free numbers; the demonstration's target name in demo_cmd is
rewritten to the convention lib/confirm_seeded.py uses (tests|examples/demo_<Cxx>_<n>.rs).
usage: import_seeded.py [--round N] <out-dir> [Cxx ...]"""
import json, os, re, shutil, sys

SEEDED = '/verif/seeded'


def main():
    args = sys.argv[1:]
    rnd = 2
    if '--round' in args:
        i = args.index('--round'); rnd = int(args[i + 1]); del args[i:i + 2]
    out = args[0]
    props = args[1:] or sorted(os.listdir(out))
    for pid in props:
        for sub in sorted(os.listdir(os.path.join(out, pid))):
            d = os.path.join(out, pid, sub)
            if not all(os.path.exists(os.path.join(d, f)) for f in ('patch.diff', 'demo.rs', 'meta.json')):
                print('incomplete', d)
                continue
            marker = os.path.join(d, '.imported')
            if os.path.exists(marker):
                continue
            n = 1
            while os.path.exists(os.path.join(SEEDED, f'{pid}-{n}')):
                n += 1
            sid = f'{pid}-{n}'
            dst = os.path.join(SEEDED, sid)
            os.makedirs(dst)
            shutil.copy(os.path.join(d, 'patch.diff'), dst)
            shutil.copy(os.path.join(d, 'demo.rs'), dst)
            meta = json.load(open(os.path.join(d, 'meta.json')))
            meta['id'] = sid
            meta['round'] = rnd
            cmd = meta.get('demo_cmd', '')
            cmd = re.sub(r'demo_%s_\w+' % pid, f'demo_{pid}_{n}', cmd)
            meta['demo_cmd'] = cmd
            json.dump(meta, open(os.path.join(dst, 'meta.json'), 'w'), indent=1)
            open(marker, 'w').write(sid)
            print('imported', d, '->', sid, '|', cmd)


if __name__ == '__main__':
    main()
