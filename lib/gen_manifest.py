#!/usr/bin/env python3
"""Generates /verif/MANIFEST.json from the table below (kept in one place so that the manifest is
always valid and the not_applicable list is always current)."""
import json, os, subprocess, sys
ROOT = os.path.dirname(os.path.dirname(os.path.abspath(__file__)))
sys.path.insert(0, os.path.join(ROOT, "lib"))
import stages

TRUST = "trusted: sha2/sha3 compression functions (shared by library and model, spot-checked against OpenSSL at calibration), the independent model (calibrated on every run against RFC 8554 Appendix F and the hash-sigs binary), the hash-sigs binary shipped as tests/demo; verdicts hold for the executions observed, nothing more"

# property -> (built?, technique, level text, level note, design ref)
TABLE = {
 "C01": (True, "runtime monitoring: every released signature checked by the library's three verification entry points over lifetime walks and boundary counters; repeated in builds with reduced limits and in a fast_verify build (sign_mut); thorough: also with debug assertions on",
         "oracle = the library's own verifier through all three entry points, observed on every signature released by a workload of 6 hashes x W x H2/H5/H10 x 1..8 levels at boundary counters (around every subtree roll-over) and on complete lifetime walks through the real callback chain alternating sign / try_sign / try_sign_with_aux; a run that did not cross a roll-over of each upper level per hash is inconclusive",
         TRUST, "DESIGN.md 5 (C01)"),
 "C02": (True, "runtime differential monitoring of the verifier against an independent RFC 8554 verifier over structure-aware mutations (hooks-on build, production hooks-off build, fast_verify/std build; thorough: coverage-guided differential fuzzing with libFuzzer + ASan)",
         "a pool of valid triples (library-, model- (random C) and hash-sigs-tool-signed; 6 hashes; 1..8 levels; plus model-built valid signatures of keys with H15/H20/H25 trees that could never be generated) is mutated field by field using the model's parser (every field class x alterations, every type code, q boundaries, re-cut lengths, level-count and chain manipulations, splices across levels/keys/hashes, truncation/extension, every byte of the smallest signatures, noise); every mutated triple is judged by the library (three entry points) and by the independent verifier, disagreement in either direction is a violation; the hash-sigs tool gives a third opinion on a sample",
         TRUST, "DESIGN.md 5 (C02)"),
 "C03": (True, "offline checking of recorded signing histories (ghost state over released signatures and persisted keys), incl. stretches of keys with up to 2^42 leaves and a 2^20-leaf top tree; repeated in a fast_verify build with sign_mut steps",
         "seeded generator plays complete-lifetime histories (sign, refused sign, crashing callback, reload, entry-point switches, own/foreign/fresh aux) always continuing from the last persisted key; the history recorded at the API boundary is checked by an OTS ghost map keyed on public material (level, I, q), by the mixed-radix digit rule for the n-th released signature and by the counter+1 rule for persisted keys; the count of distinct one-time keys over a lifetime must equal the number of (tree, leaf) pairs",
         TRUST, "DESIGN.md 5 (C03)"),
 "C05": (True, "runtime monitoring of complete lifetimes (fresh objects per call and one long-lived key object) + exhaustive execution of the real accounting arithmetic through hooks",
         "end to end: lifetime walks with get_lifetime before every signature, wiped-key check on the last hand-over, refusal without callback afterwards; the accounting arithmetic (real increment / get_lifetime code via hook accessors) is executed for every list of 1..8 heights over {2,5,10,15,20,25} with sum<=63 at all boundary counters and compared with u128 arithmetic (exhaustive: true for that finite space)",
         TRUST + "; the hook's skeleton key mirrors how HssPrivateKey::from consumes upper-level leaves (tied to the real path by the end-to-end walks)", "DESIGN.md 5 (C05)"),
 "C04": (True, "fault enumeration with a recording, scripted update callback (accept / refuse / fail-once); repeated in a fast_verify build (sign_mut) and in a build with per-level limits",
         "the grid state x callback outcome x aux variant x entry point is finite for small keys and is enumerated completely (every counter of the lifetime of [H2],[H2,H2],[H2,H2,H2],[H5] under all 6 hashes, every failing precondition); the callback recorder decides: count, argument = model successor, no release after refusal, no invocation when nothing can be signed",
         TRUST, "DESIGN.md 5 (C04)"),
 "C06": (True, "panic/termination monitor (catch_unwind + panic hook with location) over exhaustive and structure-aware hostile inputs; repeated in a hooks-off build, in builds with reduced HBS_LMS_* limits and (exported corpus) under the Miri interpreter; thorough: coverage-guided fuzzing with libFuzzer + ASan",
         "every input of the C02 mutation set plus, per (hash, key shape), every prefix length, all 256 values of every byte of every header/type/level field, level counts with well-formed filler so that parsing proceeds, and raw noise is pushed through all three verification entry points and the byte-level constructors; a panic of any kind (the library is built with overflow checks) is a violation, keyed by panic site, entry point and input class",
         TRUST + "; termination is bounded by parsed lengths, longest call reported; a global watchdog firing is inconclusive", "DESIGN.md 5 (C06)"),
 "C07": (True, "runtime differential monitoring: byte comparison with an independently written RFC 8554 signer + independent verifier + reference tool; repeated in a fast_verify (std) build",
         "every signature released on the C01 grid is compared byte for byte with the model signer run on the same key bytes and message (first differing field named), checked against the RFC length formula, verified by the model and (SHA-256/32) the hash-sigs tool; strict Appendix-B parameters are applied separately so that the recorded ls deviation (known finding) stays visible without masking anything else",
         TRUST + "; the upper-level randomizer rule and the 55-byte PRNG block for n<32 are pinned to the tree under test", "DESIGN.md 5 (C07)"),
 "C09": (True, "metamorphic runtime monitoring across processes, threads, histories and entry points (byte equality with a fresh-process baseline); valgrind memcheck on the worker process; second build with the library's std feature",
         "results for a set of (hash, parameters, seed, counter, message) inputs are computed in a fresh process with a scrubbed environment and re-computed in a second process with a hostile environment, twice on the same thread, after unrelated / failing / panicking operations, concurrently on all worker threads (an atomic active-call table records which call kinds actually overlapped; no overlap = inconclusive), through SigningKey vs the byte-level function, with valid aux, and over complete lifetimes with a key object kept in memory vs reloaded before every signature; any byte difference is a violation",
         TRUST, "DESIGN.md 5 (C09)"),
 "C10": (True, "metamorphic runtime monitoring (with aux vs without aux) + layout comparison with the model and the reference tool; repeated in builds whose top tree is as tall as the build allows",
         "for every key of the workload the aux-less keygen/sign results are the oracle; keygen and sign are repeated with thousands of hostile buffers (every length, every truncation, every single-bit corruption of small valid buffers, level-word replacements, garbage, other-seed buffers incl. MAC-cut and zero-padded, buffers set up by sign) and any difference, error, panic or write beyond the used length is a violation; fresh buffers must hold the model's hash-sigs layout, byte-identical to the tool's .aux file where the two level selections coincide, and the tool must be able to sign with the library's aux file",
         TRUST + "; buffers MAC-valid for the same seed but another parameter list are legitimate cache contents by the property's own rule and are not generated", "DESIGN.md 5 (C10)"),
 "C11": (True, "fault enumeration under a panic monitor and callback recorder, Ok results checked against the model; repeated in a hooks-off build, in builds with reduced limits and (early-failing share) under the Miri interpreter; thorough: coverage-guided fuzzing of key/aux/message bytes with libFuzzer + ASan",
         "the malformed-input grid (parameter-list lengths 0..10, key lengths 0..64, all 256 values of every parameter byte of 1-/2-/8-level keys, counters at and beyond the lifetime, wiped key, aux lengths 0..8 and all level-word corruptions) is finite and enumerated completely under all 6 hashes; no panic, no callback on error paths, every Ok must be the model's result for the state the bytes encode",
         TRUST + "; well-formed keys whose trees are unaffordable (H10+) are skipped and counted", "DESIGN.md 5 (C11)"),
 "C12": (True, "exhaustive execution of the real digit-encoding code through a hook, against the Appendix-B formulas, plus domination search; repeated in a fast_verify (std) build; thorough: under Miri",
         "the real append_checksum_to + coef are executed for every digest byte position x value and for every attainable checksum value of all 12 (n,w) (finite sub-spaces, enumerated), for millions of random digests and adversarial neighbour pairs (domination search); chain positions recovered from released signatures tie the hook to what sign emits; the three tabulated ls deviations are reported as known findings with concrete domination witnesses",
         TRUST, "DESIGN.md 5 (C12)"),
 "C13": (True, "exhaustive execution of the real counter arithmetic through hooks over all key shapes, with the reference tool as witness",
         "every list of 1..8 heights over {5,10,15,20,25} (thorough: also with the 4-leaf height) x boundary counters is pushed through the real CompressedUsedLeafsIndexes::to / increment / get_lifetime (hook accessors) and compared with u128 mixed-radix arithmetic, including sum(h)>=64 (no arithmetic failure, never exhausted early); leaf indices of library signatures and of hash-sigs tool signatures at the same edited counters are compared end to end",
         TRUST, "DESIGN.md 5 (C13)"),
 "C14": (True, "differential runtime monitoring across build configurations (transcript equality with the default build)",
         "the same worker source is compiled once per HBS_LMS_* configuration (levels, per-level maximum heights, per-level minimum Winternitz parameters, combinations; 13 in quick, 22 in thorough); for parameter lists inside the limits the transcript of keygen / lifetime / sign / successor / verify / aux / last-leaf wipe must equal the default build's byte for byte, lists just outside the limits must be refused with Err by keygen, get_lifetime and sign without any callback; a configuration that does not build or a worker that dies is a violation",
         TRUST + "; 'within limits' as documented in the crate (length <= levels, h_i <= max height of level i, w_i >= min W of level i)", "DESIGN.md 5 (C14)"),
 "C15": (True, "runtime monitoring of sign_mut across thread-count builds + ThreadSanitizer + Miri",
         "the same driver is built per HBS_LMS_THREADS x HBS_LMS_MAX_HASH_OPTIMIZATIONS setting (4 builds quick, 12 thorough) and checks every sign_mut call: signature verifies (library + independent verifier) for the returned message, only the trailer changed, callback protocol, hash_iterations, refusal of short messages and of every non-zero trailer byte position without consuming a leaf, no panic, no unbounded work (stuck calls are decided on consumed CPU time); worker start/end events from a hook show which overlap patterns of the worker threads were actually observed (too few = inconclusive); the same workload runs under ThreadSanitizer and (tiny) under Miri with several seeds",
         TRUST + "; absence of a sanitizer report is not absence of a race: schedules are sampled", "DESIGN.md 5 (C15)"),
 "C16": (True, "runtime memory inspection of real secret-bearing values after zeroize, drop and exhaustion: raw-memory scans, an interposed libc free() that photographs boxed values at release time, Miri on the zeroize/drop paths",
         "values of all five secret-bearing types are populated by the real derivation code for every hash and W, their secrets snapshotted; after zeroize() and after drop_in_place in a MaybeUninit slot the raw memory of the value (volatile byte reads) must not contain any 8-byte window of a secret and the secret fields must read zero; the same scan is applied to the heap block of a boxed value as photographed by an interposed free() at the moment it is released (the only observer that does not keep an optimisable wipe alive); keys are exhausted through all signing entry points and the final key bytes scanned for the seed; a vacuity guard requires the scan to find the secrets in the live value; a missing Zeroize impl is detected at run time",
         TRUST + "; move residue on the stack is out of scope by design", "DESIGN.md 5 (C16)"),
 "C08": (True, "runtime differential monitoring against an independent model and the reference tool, plus the derivation functions themselves (hooks) at parent leaves up to 2^32-1; repeated in builds with reduced limits",
         "differential runtime monitor: every keygen of a seeded workload over 6 hashes x W x heights x 1..8 levels x seed classes is compared byte for byte with an independent model and, for SHA-256/32, with the hash-sigs tool; child-tree derivation is observed through the embedded public keys of released signatures",
         TRUST, "DESIGN.md 5 (C08)"),
}

def main():
    hook_commits = []
    try:
        out = subprocess.run(["git", "-C", "/repo", "log", "--format=%h %s"], stdout=subprocess.PIPE).stdout.decode()
        hook_commits = [l.split()[0] for l in out.splitlines() if l.split(" ", 1)[1].startswith("verif_hooks")]
    except Exception:
        pass
    checks = []
    na = []
    props = [json.loads(l) for l in open(os.path.join(ROOT, "properties.jsonl"))]
    for p in props:
        pid = p["id"]
        t = TABLE.get(pid)
        if not t or not t[0]:
            na.append({"property_id": pid, "reason": (t[1] if t else "check not built yet (work in progress); see DESIGN.md 5 for the planned monitor")})
            continue
        checks.append({
            "property_id": pid,
            "quick_cmd": f"./check {pid} --tier quick",
            "thorough_cmd": f"./check {pid} --tier thorough",
            "evidence_file": f"evidence/{pid}.json",
            "replay_cmd_template": f"./check {pid} --replay {{path}}",
            "engine": "hbsmon",
            "level_claimed": {"category": stages.PROPS[pid]["level"], "text": t[2], "design_ref": t[4]},
            "level_note": t[3],
            "technique": t[1],
        })
    claimed = [c["property_id"] for c in checks]
    m = {
        "version": 1,
        "setup_cmd": "./setup.sh",
        "hooks": {
            "guard": "cargo feature verif_hooks of hbs-lms (off by default)",
            "enable": "the harness crates depend on /repo by path with feature verif_hooks (cargo build --release --offline -p hbsmon in /verif/harness); probes for C14/C15 are built per configuration the same way",
            "baseline_off_cmd": "cd /repo && cargo test --workspace --no-fail-fast --offline",
            "source_commits": hook_commits,
            "add_only": True,
        },
        "engines": [
            {"name": "hbsmon", "path": "harness/hbsmon", "serves_properties": claimed,
             "kind_free_text": "runtime monitors over the real library: differential/metamorphic oracles, panic and callback recorders, ghost state over recorded histories"},
            {"name": "model", "path": "harness/model", "serves_properties": claimed,
             "kind_free_text": "independent reference model of RFC 8554 and the hash-sigs key conventions (the oracle), calibrated on every run"},
        ],
        "checks": checks,
        "not_applicable": na,
        "notes": "Exit codes of ./check: 0 held on what was observed, 1 violation (VIOLATION lines), 2 inconclusive (never a VIOLATION line). known_findings.json lists recorded defects; evidence/<id>.json is rewritten by every run.",
    }
    json.dump(m, open(os.path.join(ROOT, "MANIFEST.json"), "w"), indent=1)
    print("wrote MANIFEST.json:", len(checks), "checks,", len(na), "not_applicable")

if __name__ == "__main__":
    main()
