#!/usr/bin/env python3
"""Run the registered checks against the seeded changes, one at a time:
   git -C <repo> apply <patch>; ./check <property>; git -C <repo> checkout -- .

usage: run_seeded.py [ids...] [--also C07,C01] [--tier quick|thorough] [--scratch DIR] [--results FILE]
       run_seeded.py --merge FILE...     merge result lines into seeded/<id>/meta.json ("detection")
       run_seeded.py --table             print the detection matrix (markdown) from seeded/*/meta.json

Without --scratch the change is applied to /repo itself (the procedure of record).  With
--scratch DIR a git worktree of /repo's HEAD is created at DIR and the harness of *this* copy of
/verif (meant for a `vp run` snapshot, never /verif itself) is pointed at it, so that /repo and
/verif stay usable while the matrix runs.  Evidence and replays of these runs go to
target/seeded-runs/<id>/ so that the committed evidence is untouched.  One JSON line per
(change, check) is appended to --results (default target/seeded-runs/results.jsonl)."""
import json, os, re, subprocess, sys, time

ROOT = os.path.dirname(os.path.dirname(os.path.abspath(__file__)))
SEEDED = os.path.join(ROOT, 'seeded')


def sh(cmd, **kw):
    return subprocess.run(cmd, shell=True, stdout=subprocess.PIPE, stderr=subprocess.STDOUT, **kw)


def clean_repo(repo):
    sh(f'git -C {repo} checkout -- . && git -C {repo} clean -fdq -e target')
    return sh(f'git -C {repo} status --porcelain').stdout.decode().strip() == ''


def ids_all():
    return sorted(d for d in os.listdir(SEEDED) if os.path.isdir(os.path.join(SEEDED, d)))


def merge(files):
    n = 0
    for f in files:
        for line in open(f):
            line = line.strip()
            if not line:
                continue
            r = json.loads(line)
            mp = os.path.join(SEEDED, r['id'], 'meta.json')
            if not os.path.exists(mp):
                continue
            meta = json.load(open(mp))
            det = meta.get('detection') or {}
            key = r['check'] if r.get('tier', 'quick') == 'quick' else f"{r['check']}:{r['tier']}"
            det[key] = {k: r[k] for k in ('exit', 'violations', 'keys', 'inconclusive', 'wall_s', 'base', 'verif', 'where') if k in r}
            meta['detection'] = det
            json.dump(meta, open(mp, 'w'), indent=1)
            n += 1
    print('merged', n, 'result lines')


def table():
    print('| change | breaks | what it needs | caught by (quick unless noted) | first violation key |')
    print('|---|---|---|---|---|')
    for sid in ids_all():
        meta = json.load(open(os.path.join(SEEDED, sid, 'meta.json')))
        det = meta.get('detection') or {}
        caught = [k for k, v in det.items() if v.get('exit') == 1]
        missed = [k for k, v in det.items() if v.get('exit') == 0]
        inconc = [k for k, v in det.items() if v.get('exit') not in (0, 1)]
        own = meta['property']
        key = ''
        for k in caught:
            if det[k].get('keys'):
                key = det[k]['keys'][0]
                break
        cell = ', '.join(caught) if caught else ('**missed**' if det else '(not run yet)')
        if missed and caught:
            cell += ' (silent: ' + ', '.join(missed) + ')'
        if inconc:
            cell += ' (inconclusive: ' + ', '.join(inconc) + ')'
        needs = (meta.get('needs') or '').replace('|', '/').replace('\n', ' ')
        print(f"| {sid} | {own} | {needs[:150]} | {cell} | `{key[:90]}` |")


def main():
    args = sys.argv[1:]
    if args and args[0] == '--merge':
        return merge(args[1:])
    if args and args[0] == '--table':
        return table()
    also, tier, scratch = [], 'quick', None
    results = os.path.join(ROOT, 'target', 'seeded-runs', 'results.jsonl')
    for opt in ('--also', '--tier', '--scratch', '--results'):
        if opt in args:
            i = args.index(opt)
            val = args[i + 1]
            del args[i:i + 2]
            if opt == '--also':
                also = val.split(',')
            elif opt == '--tier':
                tier = val
            elif opt == '--scratch':
                scratch = val
            else:
                results = val
    ids = args or ids_all()
    os.makedirs(os.path.dirname(results), exist_ok=True)
    repo = '/repo'
    env_extra = {}
    if scratch:
        assert ROOT != '/verif', '--scratch rewrites the harness manifest: use it from a snapshot of /verif only'
        sh(f'git -C /repo worktree remove --force {scratch}')
        sh(f'rm -rf {scratch}; git -C /repo worktree prune')
        r = sh(f'git -C /repo worktree add -q --detach {scratch} HEAD')
        assert r.returncode == 0, r.stdout.decode()
        repo = scratch
        man = os.path.join(ROOT, 'harness', 'hbsmon', 'Cargo.toml')
        text = open(man).read().replace('path = "/repo"', f'path = "{scratch}"')
        open(man, 'w').write(text)
        env_extra['VERIF_REPO'] = scratch
    assert clean_repo(repo), f'{repo} is not clean'
    base = subprocess.run(['git', '-C', repo, 'rev-parse', '--short', 'HEAD'], stdout=subprocess.PIPE).stdout.decode().strip()
    verif = subprocess.run(['git', '-C', ROOT, 'rev-parse', '--short', 'HEAD'], stdout=subprocess.PIPE).stdout.decode().strip()
    try:
        for sid in ids:
            prop = sid.split('-')[0]
            r = sh(f'git -C {repo} apply {SEEDED}/{sid}/patch.diff')
            if r.returncode != 0:
                print(sid, 'PATCH DOES NOT APPLY', r.stdout.decode()[-200:], flush=True)
                clean_repo(repo)
                continue
            try:
                for p in [prop] + [a for a in also if a != prop]:
                    out_dir = os.path.join(ROOT, 'target', 'seeded-runs', sid)
                    os.makedirs(out_dir, exist_ok=True)
                    env = dict(os.environ, VERIF_EVIDENCE_DIR=out_dir, VERIF_REPLAY_DIR=out_dir, **env_extra)
                    t0 = time.time()
                    c = sh(f'./check {p} --tier {tier}', cwd=ROOT, env=env)
                    text = c.stdout.decode('utf-8', 'replace')
                    open(os.path.join(out_dir, f'{p}-{tier}.log'), 'w').write(text)
                    keys = re.findall(r'^\s+key: (.*)$', text, re.M)
                    rec = {'id': sid, 'check': p, 'tier': tier, 'exit': c.returncode, 'violations': len(re.findall(r'^VIOLATION ', text, re.M)), 'keys': keys[:12],
                           'inconclusive': re.findall(r'^INCONCLUSIVE: (.*)$', text, re.M)[:3], 'wall_s': round(time.time() - t0, 1), 'base': base, 'verif': verif,
                           'where': 'scratch worktree' if scratch else '/repo'}
                    open(results, 'a').write(json.dumps(rec) + '\n')
                    verdict = {0: 'MISSED', 1: 'DETECTED', 2: 'INCONCLUSIVE'}.get(c.returncode, f'exit {c.returncode}')
                    print(sid, p, verdict, rec['wall_s'], 's', keys[:3], rec['inconclusive'][:1], flush=True)
            finally:
                if not clean_repo(repo):
                    print('REPO NOT CLEAN after', sid, flush=True)
                    return
    finally:
        if scratch:
            sh(f'git -C /repo worktree remove --force {scratch}')
            sh(f'rm -rf {scratch}; git -C /repo worktree prune')


if __name__ == '__main__':
    main()
