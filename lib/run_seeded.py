#!/usr/bin/env python3
"""Run the registered quick checks against the seeded changes, one at a time:
   git -C /repo apply <patch>; ./check <property>; git -C /repo checkout -- .
Evidence and replays of these runs go to target/seeded-runs/<id>/ so that the committed evidence
is untouched.  Results are recorded in seeded/<id>/meta.json under "detection".
usage: run_seeded.py [ids...] [--also C07,C01]"""
import json, os, re, subprocess, sys, time

ROOT = '/verif'

def sh(cmd, **kw):
    return subprocess.run(cmd, shell=True, stdout=subprocess.PIPE, stderr=subprocess.STDOUT, **kw)

def clean_repo():
    sh('git -C /repo checkout -- . && git -C /repo clean -fdq -e target')
    out = sh('git -C /repo status --porcelain').stdout.decode().strip()
    return out == ''

def main():
    args = sys.argv[1:]
    also = []
    if '--also' in args:
        i = args.index('--also'); also = args[i + 1].split(','); del args[i:i + 2]
    ids = args or sorted(d for d in os.listdir(f'{ROOT}/seeded') if os.path.isdir(f'{ROOT}/seeded/{d}'))
    assert clean_repo(), '/repo is not clean'
    for sid in ids:
        prop = sid.split('-')[0]
        mp = f'{ROOT}/seeded/{sid}/meta.json'
        meta = json.load(open(mp))
        r = sh(f'git -C /repo apply {ROOT}/seeded/{sid}/patch.diff')
        if r.returncode != 0:
            print(sid, 'PATCH DOES NOT APPLY', r.stdout.decode()[-200:], flush=True)
            clean_repo()
            continue
        det = meta.get('detection', {})
        try:
            for p in [prop] + also:
                out_dir = f'{ROOT}/target/seeded-runs/{sid}'
                os.makedirs(out_dir, exist_ok=True)
                env = dict(os.environ, VERIF_EVIDENCE_DIR=out_dir, VERIF_REPLAY_DIR=out_dir)
                t0 = time.time()
                c = sh(f'./check {p} --tier quick', cwd=ROOT, env=env)
                text = c.stdout.decode('utf-8', 'replace')
                keys = re.findall(r'^\s+key: (.*)$', text, re.M)
                det[p] = {'exit': c.returncode, 'violations': len(re.findall(r'^VIOLATION ', text, re.M)), 'keys': keys[:12],
                          'inconclusive': re.findall(r'^INCONCLUSIVE: (.*)$', text, re.M)[:3], 'wall_s': round(time.time() - t0, 1),
                          'base': subprocess.run(['git', '-C', '/repo', 'rev-parse', '--short', 'HEAD'], stdout=subprocess.PIPE).stdout.decode().strip()}
                verdict = {0: 'MISSED', 1: 'DETECTED', 2: 'INCONCLUSIVE'}.get(c.returncode, f'exit {c.returncode}')
                print(sid, p, verdict, det[p]['wall_s'], 's', keys[:3], det[p]['inconclusive'][:1], flush=True)
        finally:
            ok = clean_repo()
            meta['detection'] = det
            json.dump(meta, open(mp, 'w'), indent=1)
            if not ok:
                print('REPO NOT CLEAN after', sid, flush=True)
                break

if __name__ == '__main__':
    main()
