#!/usr/bin/env python3
"""Regenerates the detection matrix in DESIGN.md (between the BEGIN/END markers of section 8.1)
from seeded/*/meta.json."""
import io, os, subprocess, sys
ROOT = os.path.dirname(os.path.dirname(os.path.abspath(__file__)))
table = subprocess.run([sys.executable, os.path.join(ROOT, 'lib', 'run_seeded.py'), '--table'], stdout=subprocess.PIPE).stdout.decode()
p = os.path.join(ROOT, 'DESIGN.md')
s = open(p).read()
b, e = '<!-- BEGIN MATRIX -->', '<!-- END MATRIX -->'
assert b in s and e in s
s = s[:s.index(b) + len(b)] + '\n' + table + s[s.index(e):]
# stage map (which stages decide which property), from lib/stages.py
sys.path.insert(0, os.path.join(ROOT, 'lib'))
import stages
rows = ['| property | quick tier stages | additional stages in the thorough tier |', '|---|---|---|']
for pid in sorted(stages.PROPS):
    sp = stages.PROPS[pid]
    rows.append(f"| {pid} | {', '.join(sp['stages'])} | {', '.join(sp.get('thorough_extra', [])) or '-'} |")
b2, e2 = '<!-- BEGIN STAGEMAP -->', '<!-- END STAGEMAP -->'
if b2 in s and e2 in s:
    s = s[:s.index(b2) + len(b2)] + '\n' + '\n'.join(rows) + '\n' + s[s.index(e2):]
open(p, 'w').write(s)
print('matrix rows:', table.count('\n') - 2)
