#!/usr/bin/env python3
"""Regenerates the detection matrix in DESIGN.md (between the BEGIN/END markers of section 8.1)
from seeded/*/meta.json."""
import io, os, subprocess, sys
ROOT = os.path.dirname(os.path.dirname(os.path.abspath(__file__)))
table = subprocess.run([sys.executable, os.path.join(ROOT, 'lib', 'run_seeded.py'), '--table'], stdout=subprocess.PIPE).stdout.decode()
p = os.path.join(ROOT, 'DESIGN.md')
s = open(p).read()
b, e = '<!-- BEGIN MATRIX -->', '<!-- END MATRIX -->'
assert b in s and e in s
s = s[:s.index(b) + len(b)] + '\n' + table + s[s.index(e):]
open(p, 'w').write(s)
print('matrix rows:', table.count('\n') - 2)
