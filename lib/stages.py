"""Orchestration of the runtime-monitoring checks: builds, calibration, driver stages,
known-finding matching, evidence and replay files."""
import json
import os
import shutil
import subprocess
import time

REPO = os.environ.get("VERIF_REPO", "/repo")

# property -> claimed level and the stages that decide it
# stages marked supplementary: a violation there fails the check like any other, but an
# inconclusive supplementary stage (tool could not run, budget exhausted) is only recorded in the
# evidence: the deciding oracle of those properties is the native monitor
SUPPLEMENTARY = {"miri", "nohooks", "stdbuild", "constrained", "fvbuild", "fuzz", "dbgassert"}

# coverage-guided fuzzing (libFuzzer + AddressSanitizer through cargo-fuzz), thorough tier:
# property -> (fuzz target, seconds)
FUZZ = {"C02": ("verify_diff", 420), "C06": ("verify_diff", 420), "C11": ("sign_total", 420)}
ALG_ORDER = ["sha256_256", "sha256_192", "sha256_128", "shake256_256", "shake256_192", "shake256_128"]

PROPS = {
    "C01": {"level": "exploration", "stages": ["native", "constrained", "fvbuild"], "thorough_extra": ["dbgassert"]},
    "C02": {"level": "exploration", "stages": ["native", "nohooks", "fvbuild", "constrained"], "thorough_extra": ["fuzz", "dbgassert"]},
    "C03": {"level": "exploration", "stages": ["native", "fvbuild"]},
    "C04": {"level": "fault_enumeration", "stages": ["native", "fvbuild", "constrained"]},
    "C05": {"level": "exploration", "stages": ["native"]},
    "C06": {"level": "exploration", "stages": ["native", "nohooks", "constrained", "miri"], "thorough_extra": ["fuzz", "dbgassert"]},
    "C07": {"level": "exploration", "stages": ["native", "fvbuild"]},
    "C08": {"level": "exploration", "stages": ["native", "constrained"]},
    "C09": {"level": "exploration", "stages": ["native", "fvbuild"]},
    "C10": {"level": "exploration", "stages": ["native", "constrained"]},
    "C11": {"level": "fault_enumeration", "stages": ["native", "nohooks", "constrained", "miri"], "thorough_extra": ["fuzz", "dbgassert"]},
    "C12": {"level": "exploration", "stages": ["native", "fvbuild"], "thorough_extra": ["miri"]},
    "C13": {"level": "exploration", "stages": ["native"]},
    "C14": {"level": "exploration", "stages": ["c14"]},
    "C15": {"level": "exploration", "stages": ["c15"]},
    "C16": {"level": "exploration", "stages": ["native", "miri"]},
}

# number of interpreter processes per tier
MIRI_SHARDS = {"quick": 8, "thorough": 16}
MIRI_TIMEOUT = {"quick": 900, "thorough": 3600}

WATCHDOG = {"quick": 45 * 60, "thorough": 5 * 3600}


class Inconclusive(Exception):
    pass


def sh(cmd, cwd=None, env=None, timeout=None):
    """run, return (exit code or None on timeout, combined output)"""
    e = dict(os.environ)
    e["CARGO_NET_OFFLINE"] = "true"
    if env:
        e.update(env)
    try:
        p = subprocess.run(cmd, cwd=cwd, env=e, stdout=subprocess.PIPE, stderr=subprocess.STDOUT, timeout=timeout)
        return p.returncode, p.stdout.decode("utf-8", "replace")
    except subprocess.TimeoutExpired as ex:
        out = ex.stdout.decode("utf-8", "replace") if ex.stdout else ""
        return None, out


class Run:
    def __init__(self, root, prop, tier, seed, replay):
        self.root = root
        self.prop = prop
        self.tier = tier
        self.seed = seed
        self.replay = replay
        self.harness = os.path.join(root, "harness")
        self.results = os.path.join(root, "target", "results")
        os.makedirs(self.results, exist_ok=True)
        # VERIF_EVIDENCE_DIR / VERIF_REPLAY_DIR redirect the outputs (used when the checks are run
        # against seeded changes, so that the committed evidence is not overwritten)
        self.evidence_dir = os.environ.get("VERIF_EVIDENCE_DIR", os.path.join(root, "evidence"))
        self.replay_dir = os.environ.get("VERIF_REPLAY_DIR", os.path.join(root, "replays"))
        os.makedirs(self.evidence_dir, exist_ok=True)
        self.docs = []  # (stage name, result document)
        self.supplementary_notes = []
        self.calibration = []
        self.t0 = time.time()
        self.env = {
            "VERIF_ROOT": root,
            "VERIF_SEED": str(seed),
            "VERIF_TIER": tier,
        }

    # ------------------------------------------------------------------ builds
    def build_hbsmon(self, hooks=True):
        cmd = ["cargo", "build", "--release", "--offline", "-p", "hbsmon"]
        target = os.path.join(self.harness, "target")
        if not hooks:
            target = os.path.join(self.harness, "target-nohooks")
            cmd += ["--no-default-features", "--target-dir", target]
        code, out = sh(cmd, cwd=self.harness, timeout=1800)
        if code != 0:
            # is it the library (as edited) that does not build, or the harness?
            probe = os.path.join(self.root, "target", "repo-probe")
            c2, out2 = sh(["cargo", "build", "--release", "--offline", "--features", "verif_hooks",
                           "--manifest-path", os.path.join(REPO, "Cargo.toml"), "--target-dir", probe], cwd=REPO, timeout=1800)
            tail = "\n".join(out.strip().splitlines()[-25:])
            if c2 != 0:
                raise Inconclusive("the library itself does not build with feature verif_hooks:\n" + "\n".join(out2.strip().splitlines()[-15:]))
            raise Inconclusive("harness build failed although the library builds:\n" + tail)
        return os.path.join(target, "release", "hbsmon")

    def calibrate(self, hbsmon):
        out = os.path.join(self.results, f"calib-{self.prop}.json")
        code, text = sh([hbsmon, "calib", "--out", out], cwd=self.root, env=self.env, timeout=600)
        if code != 0:
            raise Inconclusive("ORACLE-BROKEN: calibration run failed: " + text[-400:])
        doc = json.load(open(out))
        if doc.get("calibration") != "ok":
            raise Inconclusive("ORACLE-BROKEN: " + doc.get("error", "?"))
        self.calibration = doc.get("checked", [])

    # ------------------------------------------------------------------ stages
    def stage_native(self):
        hbsmon = self.build_hbsmon()
        self.calibrate(hbsmon)
        out = os.path.join(self.results, f"{self.prop}-native.json")
        if os.path.exists(out):
            os.remove(out)
        cmd = [hbsmon, self.prop, "--tier", self.tier, "--seed", str(self.seed), "--out", out]
        if self.replay:
            cmd += ["--replay", self.replay]
        code, text = sh(cmd, cwd=self.root, env=self.env, timeout=WATCHDOG[self.tier])
        if code is None:
            raise Inconclusive("watchdog: native driver exceeded its wall-clock budget")
        if code != 0 or not os.path.exists(out):
            raise Inconclusive(f"native driver failed (exit {code}): " + text[-600:])
        return json.load(open(out))

    # ------------------------------------------------------------------ supplementary stages
    def stage_nohooks(self):
        """the same driver built WITHOUT the verif_hooks feature (production type-code table, no
        hook module), reduced workload"""
        try:
            hbsmon = self.build_hbsmon(hooks=False)
        except Inconclusive as e:
            return {"inconclusive": [str(e)[:600]]}
        out = os.path.join(self.results, f"{self.prop}-nohooks.json")
        if os.path.exists(out):
            os.remove(out)
        env = dict(self.env); env["VERIF_SCALE"] = os.environ.get("VERIF_SCALE", "1.0")
        code, text = sh([hbsmon, self.prop, "--tier", self.tier, "--seed", str(self.seed), "--out", out], cwd=self.root, env=env, timeout=WATCHDOG[self.tier])
        if code != 0 or not os.path.exists(out):
            return {"inconclusive": [f"hooks-off driver failed (exit {code}): " + text[-400:]]}
        return json.load(open(out))

    # builds with reduced HBS_LMS_* limits in which the hostile-input drivers are run as well
    # (fixed-capacity containers are sized from these limits); the target directories are shared
    # with the C14 stage
    CONSTRAINED = {
        # (name, levels, heights, winternitz, quick?)
        "C06": [
            ("L1", 1, "25", "1", True),
            ("L3-h10-5-5-w8-4-2", 3, "10, 5, 5", "8, 4, 2", True),
            ("L2-h5-10", 2, "5, 10", "1, 1", False),
            ("L5", 5, "25, 25, 25, 25, 25", "1, 1, 1, 1, 1", False),
        ],
        # aux data: builds in which the top tree of a key has the maximum height the build allows
        # (its leaf level is then cached) and builds with fewer levels
        # released signatures must verify in every build, also where the limits differ per level
        "C01": [
            ("L2-h5-10-w4-4", 2, "5, 10", "4, 4", True),
            ("L3-h10-5-5-w8-4-2", 3, "10, 5, 5", "8, 4, 2", True),
            ("L2-h10-5", 2, "10, 5", "1, 1", False),
        ],
        # verification in builds whose limits differ per level
        "C02": [
            ("L3-h10-5-5-w8-4-2", 3, "10, 5, 5", "8, 4, 2", True),
            ("L2-h5-10-w4-4", 2, "5, 10", "4, 4", False),
        ],
        # the callback protocol where a key can be beyond one level's limit only
        "C04": [
            ("L2-h10-5", 2, "10, 5", "1, 1", True),
            ("L3-h10-5-5-w8-4-2", 3, "10, 5, 5", "8, 4, 2", False),
        ],
        # keys have the same bytes in every build
        "C08": [
            ("L3-h10-5-5-w8-4-2", 3, "10, 5, 5", "8, 4, 2", True),
            ("L1", 1, "25", "1", True),
            ("L5", 5, "25, 25, 25, 25, 25", "1, 1, 1, 1, 1", False),
        ],
        # key bytes and parameter lists beyond what the build supports are malformed input there
        "C11": [
            ("L1", 1, "25", "1", True),
            ("L3-h10-5-5-w8-4-2", 3, "10, 5, 5", "8, 4, 2", True),
            ("L2-h5-10", 2, "5, 10", "1, 1", False),
        ],
        "C10": [
            ("L1-h5", 1, "5", "1", True),
            ("L8-h5", 8, ", ".join(["5"] * 8), ", ".join(["1"] * 8), True),
            ("L2-h10-5", 2, "10, 5", "1, 1", False),
        ],
    }

    def stage_constrained(self):
        from concurrent.futures import ThreadPoolExecutor
        base = os.path.join(self.root, "target", "c14")
        os.makedirs(base, exist_ok=True)
        configs = [c for c in self.CONSTRAINED[self.prop] if c[4] or self.tier == "thorough"]

        def one(cfg):
            name, lv, hs, ws, _ = cfg
            tdir = os.path.join(base, name)
            env = {"HBS_LMS_MAX_ALLOWED_HSS_LEVELS": str(lv), "HBS_LMS_TREE_HEIGHTS": hs, "HBS_LMS_WINTERNITZ_PARAMETERS": ws}
            code, out = sh(["cargo", "build", "--release", "--offline", "-p", "hbsmon", "--target-dir", tdir], cwd=self.harness, env=env, timeout=1800)
            if code != 0:
                return name, {"inconclusive": [f"build with configuration {name} failed: " + out[-300:]]}
            res = os.path.join(self.results, f"{self.prop}-constrained-{name}.json")
            if os.path.exists(res):
                os.remove(res)
            renv = dict(self.env); renv["VERIF_SCALE"] = "0.5"; renv["VERIF_BUILD_CONFIG"] = name; renv["VERIF_BUILD_LIMITS"] = f"{lv};{hs};{ws}"
            c, text = sh([os.path.join(tdir, "release", "hbsmon"), self.prop, "--tier", self.tier, "--seed", str(self.seed), "--out", res, "--threads", "8"], cwd=self.root, env=renv, timeout=WATCHDOG[self.tier])
            if c != 0 or not os.path.exists(res):
                return name, {"inconclusive": [f"driver of the build with configuration {name} failed (exit {c}): " + text[-300:]]}
            d = json.load(open(res))
            known_keys = {f.get("key") for f in self.known_findings() if f.get("status") == "known" and f.get("property") == self.prop}
            for v in d.get("violations", []):
                if v["key"] in known_keys:
                    continue  # a recorded finding is the same finding in every build
                v["key"] = v["key"] + f":build={name}"
                v["what"] = f"[build HBS_LMS_MAX_ALLOWED_HSS_LEVELS={lv} HBS_LMS_TREE_HEIGHTS='{hs}' HBS_LMS_WINTERNITZ_PARAMETERS='{ws}'] " + v["what"]
            # a constrained build refuses most of the default workload's keys: what it did observe is in its counters
            d["inconclusive"] = [w for w in d.get("inconclusive", []) if "reference tool" not in w and "layout" not in w]
            return name, d

        with ThreadPoolExecutor(len(configs)) as ex:
            docs = list(ex.map(one, configs))
        merged = self.merge_docs(docs)
        merged["counters"]["constrained_builds"] = len(configs)
        return merged

    def stage_fvbuild(self):
        """the same driver in a build with the library's fast_verify feature (hbs_lms::sign_mut
        exists only there); shares its target directory with the C15 stage"""
        tdir = os.path.join(self.root, "target", "c15", "T2-M7")
        env = {"HBS_LMS_THREADS": "2", "HBS_LMS_MAX_HASH_OPTIMIZATIONS": "7"}
        code, out = sh(["cargo", "build", "--release", "--offline", "-p", "hbsmon", "--features", "fv", "--target-dir", tdir], cwd=self.harness, env=env, timeout=1800)
        if code != 0:
            return {"inconclusive": ["fast_verify build failed: " + out[-400:]]}
        res = os.path.join(self.results, f"{self.prop}-fv.json")
        if os.path.exists(res):
            os.remove(res)
        # another seed than the native stage, so that the second build also sees other inputs
        c, text = sh([os.path.join(tdir, "release", "hbsmon"), self.prop, "--tier", self.tier, "--seed", str(self.seed + 1), "--out", res], cwd=self.root, env=self.env, timeout=WATCHDOG[self.tier])
        if c != 0 or not os.path.exists(res):
            return {"inconclusive": [f"driver of the fast_verify build failed (exit {c}): " + text[-400:]]}
        return json.load(open(res))

    def fuzz_seed_corpus(self, target, cdir):
        """seed inputs: verify_diff from the corpus the native C06 run exports (valid and hostile
        triples of small signatures), sign_total from hand-made key files"""
        os.makedirs(cdir, exist_ok=True)
        n = 0
        if target == "verify_diff":
            src = os.path.join(self.results, "C06-miri-corpus.txt")
            if not os.path.exists(src):
                hbsmon = self.build_hbsmon()
                sh([hbsmon, "C06", "--tier", "quick", "--seed", str(self.seed), "--out", os.path.join(self.results, "C06-for-fuzz.json")], cwd=self.root, env=self.env, timeout=1800)
            if os.path.exists(src):
                for line in open(src):
                    f = line.split()
                    if len(f) != 6 or f[0] not in ALG_ORDER:
                        continue
                    msg, sig, pk = [b"" if x == "-" else bytes.fromhex(x) for x in f[3:6]]
                    if len(msg) > 255 or len(pk) > 127:
                        continue
                    nn = {"256": 32, "192": 24, "128": 16}[f[0].split("_")[1]]
                    sel = 0 if len(pk) == 28 + nn else 0x80 | len(pk)
                    open(os.path.join(cdir, f"seed-{n}"), "wb").write(bytes([ALG_ORDER.index(f[0]), len(msg), sel]) + msg + pk + sig)
                    n += 1
        else:
            for ai, name in enumerate(ALG_ORDER):
                nn = {"256": 32, "192": 24, "128": 16}[name.split("_")[1]]
                for params in (b"\x11", b"\x12\x11", b"\x11\x12\x11", b"\x51", b"\x11" * 8, b"\x13"):
                    for counter in (0, 1, 3):
                        key = counter.to_bytes(8, "big") + params + b"\xff" * (8 - len(params)) + bytes((7 * i + ai) & 0xff for i in range(nn))
                        for aux in (None, bytes(200)):
                            hdr = bytes([ai, len(key), 255 if aux is None else len(aux) // 4, n & 1])
                            open(os.path.join(cdir, f"seed-{n}"), "wb").write(hdr + key + (aux or b"") + b"fuzz message")
                            n += 1
        return n

    def stage_fuzz(self):
        """libFuzzer (coverage-guided) + AddressSanitizer on a harness target, time-boxed"""
        target, seconds = FUZZ[self.prop]
        seconds = int(os.environ.get("VERIF_FUZZ_SECONDS", seconds))
        fz = os.path.join(self.harness, "fz")
        work = os.path.join(self.root, "target", "fuzz", f"{self.prop}-{target}")
        shutil.rmtree(work, ignore_errors=True)
        cdir, adir = os.path.join(work, "corpus"), os.path.join(work, "artifacts")
        os.makedirs(adir, exist_ok=True)
        code, out = sh(["cargo", "+nightly", "fuzz", "build", target], cwd=fz, timeout=3000)
        if code != 0:
            return {"inconclusive": ["cargo fuzz build failed: " + out[-400:]]}
        seeds = self.fuzz_seed_corpus(target, cdir)
        t0 = time.time()
        code, out = sh(["cargo", "+nightly", "fuzz", "run", target, cdir, "--", f"-max_total_time={seconds}", "-timeout=20", "-rss_limit_mb=6000", "-fork=12", "-ignore_crashes=1", "-ignore_timeouts=1", "-ignore_ooms=1",
                        f"-artifact_prefix={adir}/", f"-seed={self.seed}", "-max_len=80000", "-len_control=0"], cwd=fz, timeout=seconds + 900)
        doc = {"evaluations": 0, "distinct_nontrivial": 0, "samples": [], "violations": [], "inconclusive": [], "notes": [], "counters": {"fuzz_seed_inputs": seeds, "fuzz_seconds": int(time.time() - t0)},
               "rule": f"coverage-guided fuzzing (libFuzzer, AddressSanitizer, 12 forked workers, {seconds} s) of harness target {target}, seeded with {seeds} inputs; evaluations = executions reported by libFuzzer, distinct_nontrivial = inputs libFuzzer kept because they reached new coverage",
               "assumptions": ["a slow unit or an out-of-memory report of the fuzzer is not a verdict"]}
        import re
        execs = [int(x) for x in re.findall(r"#(\d+): cov:", out)] + [int(x) for x in re.findall(r"stat::number_of_executed_units: (\d+)", out)]
        doc["evaluations"] = max(execs) if execs else 0
        covs = [int(x) for x in re.findall(r"cov: (\d+)", out)]
        doc["counters"]["fuzz_coverage_edges"] = max(covs) if covs else 0
        try:
            doc["distinct_nontrivial"] = max(0, len(os.listdir(cdir)) - seeds)
        except OSError:
            pass
        binp = os.path.join(fz, "fuzz", "target", "x86_64-unknown-linux-gnu", "release", target)
        seen = set()
        for a in sorted(os.listdir(adir)):
            path = os.path.join(adir, a)
            if not a.startswith("crash-"):
                doc["notes"].append(f"fuzzer artifact {a} (slow unit / oom): not a verdict")
                continue
            c2, o2 = sh([binp, path], cwd=fz, timeout=120)
            m = re.search(r"panicked at ([^\n]*):\n?([^\n]*)", o2)
            where = (m.group(1) if m else "?").replace("/repo/", "")
            what = (m.group(2) if m else o2[-200:]).strip()
            if "AddressSanitizer" in o2 and not m:
                where, what = "AddressSanitizer", [l for l in o2.splitlines() if "ERROR: AddressSanitizer" in l][:1][0] if "ERROR: AddressSanitizer" in o2 else "report"
            kind = "disagreement" if "DISAGREE" in what else ("protocol" if "PROTOCOL" in what else "panic")
            key = f"{self.prop}:fuzz:{kind}:{where.split(':')[0]}:{where.split(':')[1] if ':' in where else ''}" if kind == "panic" else f"{self.prop}:fuzz:{kind}:{what[:80]}"
            if key in seen:
                continue
            seen.add(key)
            data = open(path, "rb").read()
            doc["violations"].append({"key": key, "what": f"fuzz target {target}: {what[:300]} (at {where})", "count": 1,
                                      "replay": {"fuzz_target": target, "input": data.hex() if len(data) <= 200000 else None, "artifact": path}})
        if doc["evaluations"] == 0:
            doc["inconclusive"].append("the fuzzer reported no executions: " + out[-300:])
        if len(doc["samples"]) == 0:
            kept = sorted(os.listdir(cdir))[:2] if os.path.isdir(cdir) else []
            doc["samples"] = [{"fuzz_input_hex": open(os.path.join(cdir, k), "rb").read()[:120].hex()} for k in kept]
        return doc

    def stage_dbgassert(self):
        """the same driver in the release profile with debug assertions ON (the library's and its
        dependencies' debug_assert!s then fire on the same workloads)"""
        target = os.path.join(self.harness, "target-dbgassert")
        code, out = sh(["cargo", "build", "--profile", "dbgassert", "--offline", "-p", "hbsmon", "--target-dir", target], cwd=self.harness, timeout=1800)
        if code != 0:
            return {"inconclusive": ["build with debug assertions failed: " + out[-400:]]}
        res = os.path.join(self.results, f"{self.prop}-dbgassert.json")
        if os.path.exists(res):
            os.remove(res)
        env = dict(self.env); env["VERIF_TIER"] = "quick"
        c, text = sh([os.path.join(target, "dbgassert", "hbsmon"), self.prop, "--tier", "quick", "--seed", str(self.seed + 2), "--out", res], cwd=self.root, env=env, timeout=WATCHDOG[self.tier])
        if c != 0 or not os.path.exists(res):
            return {"inconclusive": [f"driver of the debug-assertions build failed (exit {c}): " + text[-400:]]}
        return json.load(open(res))

    def stage_stdbuild(self):
        """the same driver against the library built with its `std` feature (the configuration in
        which process-wide or per-thread state could exist at all)"""
        target = os.path.join(self.harness, "target-std")
        code, out = sh(["cargo", "build", "--release", "--offline", "-p", "hbsmon", "--features", "std", "--target-dir", target], cwd=self.harness, timeout=1800)
        if code != 0:
            return {"inconclusive": ["build with the library's std feature failed: " + out[-400:]]}
        res = os.path.join(self.results, f"{self.prop}-std.json")
        if os.path.exists(res):
            os.remove(res)
        c, text = sh([os.path.join(target, "release", "hbsmon"), self.prop, "--tier", self.tier, "--seed", str(self.seed + 1), "--out", res], cwd=self.root, env=self.env, timeout=WATCHDOG[self.tier])
        if c != 0 or not os.path.exists(res):
            return {"inconclusive": [f"driver of the std build failed (exit {c}): " + text[-400:]]}
        return json.load(open(res))

    def stage_miri(self):
        """the driver's hashing-poor subset under the Miri interpreter, sharded over processes"""
        from concurrent.futures import ThreadPoolExecutor
        tdir = os.path.join(self.root, "target", "miri")
        n = MIRI_SHARDS[self.tier]
        base_env = dict(self.env)
        base_env.update({"VERIF_MIRI": "1", "MIRIFLAGS": "-Zmiri-disable-isolation", "CARGO_TARGET_DIR": tdir})
        # build once (cargo miri run builds on demand; doing it up front keeps the shards from queueing on the lock)
        code, out = sh(["cargo", "+nightly", "miri", "run", "--offline", "-p", "hbsmon", "--", "none"], cwd=self.harness, env=base_env, timeout=3000)
        if "unknown property none" not in out:
            if "Undefined Behavior" in out:
                return {"violations": [{"key": f"{self.prop}:miri:startup", "what": "Miri reports undefined behaviour before the driver starts", "count": 1, "replay": {"output": out[-3000:]}}]}
            return {"inconclusive": ["Miri build of the harness failed: " + out[-400:]]}

        def shard(k):
            res = os.path.join(self.results, f"{self.prop}-miri-{k}.json")
            if os.path.exists(res):
                os.remove(res)
            c, text = sh(["cargo", "+nightly", "miri", "run", "--offline", "-p", "hbsmon", "--", self.prop, "--tier", self.tier, "--seed", str(self.seed),
                          "--out", res, "--threads", "1", "--shard", f"{k}/{n}"], cwd=self.harness, env=base_env, timeout=MIRI_TIMEOUT[self.tier])
            name = f"shard{k}"
            if c == 0 and os.path.exists(res):
                d = json.load(open(res))
                d.setdefault("counters", {})["miri_processes"] = 1
                return name, d
            if c is None:
                return name, {"inconclusive": [f"interpreter shard {k}/{n} exceeded its wall-clock budget"]}
            if "Undefined Behavior" in text or "data race" in text.lower():
                first = [l for l in text.splitlines() if l.startswith("error")]
                frames = [l.strip() for l in text.splitlines() if "/repo/" in l or "hbs_lms" in l][:3]
                return name, {"violations": [{"key": f"{self.prop}:miri:" + (first[0][:160] if first else "undefined behaviour"),
                                              "what": "Miri reports undefined behaviour while running the driver's subset: " + " | ".join(frames)[:300], "count": 1,
                                              "replay": {"shard": f"{k}/{n}", "output": text[-3000:]}}]}
            return name, {"inconclusive": [f"interpreter shard {k}/{n} failed without an undefined-behaviour report (exit {c}): " + text[-300:]]}

        with ThreadPoolExecutor(n) as ex:
            docs = list(ex.map(shard, range(n)))
        merged = self.merge_docs(docs)
        merged["counters"]["miri_shards"] = n
        return merged

    # ------------------------------------------------------------------ C14: one build per configuration
    C14_CONFIGS = [
        # (name, levels, heights, winternitz, quick?)
        ("L1", 1, "25", "1", True),
        ("L2", 2, "25, 25", "1, 1", True),
        ("L3", 3, "25, 25, 25", "1, 1, 1", False),
        ("L4", 4, "25, 25, 25, 25", "1, 1, 1, 1", False),
        ("L5", 5, "25, 25, 25, 25, 25", "1, 1, 1, 1, 1", True),
        ("L6", 6, ", ".join(["25"] * 6), ", ".join(["1"] * 6), False),
        ("L7", 7, ", ".join(["25"] * 7), ", ".join(["1"] * 7), True),
        ("L1-h5", 1, "5", "1", True),
        ("L1-h10", 1, "10", "1", False),
        ("L2-h5-10", 2, "5, 10", "1, 1", True),
        ("L2-h10-5", 2, "10, 5", "1, 1", True),
        ("L3-h15-5-5", 3, "15, 5, 5", "1, 1, 1", False),
        ("L8-h5", 8, ", ".join(["5"] * 8), ", ".join(["1"] * 8), True),
        ("L1-w8", 1, "25", "8", True),
        ("L1-w4", 1, "25", "4", False),
        ("L2-w2-8", 2, "25, 25", "2, 8", True),
        ("L2-w8-2", 2, "25, 25", "8, 2", False),
        ("L3-w4-4-4", 3, "25, 25, 25", "4, 4, 4", True),
        ("L2-h5-10-w4-2", 2, "5, 10", "4, 2", True),
        ("L3-h10-5-5-w8-4-2", 3, "10, 5, 5", "8, 4, 2", False),
        ("L2-h2-2-w8-8", 2, "2, 2", "8, 8", False),
        ("L4-h5-5-2-2-w2-2-4-8", 4, "5, 5, 2, 2", "2, 2, 4, 8", False),
    ]

    def stage_c14(self):
        from concurrent.futures import ThreadPoolExecutor
        default = self.build_hbsmon()
        self.calibrate(default)
        configs = [c for c in self.C14_CONFIGS if c[4] or self.tier == "thorough"]
        base = os.path.join(self.root, "target", "c14")
        os.makedirs(base, exist_ok=True)
        t0 = time.time()

        def build(cfg):
            name, lv, hs, ws, _ = cfg
            tdir = os.path.join(base, name)
            env = {"HBS_LMS_MAX_ALLOWED_HSS_LEVELS": str(lv), "HBS_LMS_TREE_HEIGHTS": hs, "HBS_LMS_WINTERNITZ_PARAMETERS": ws}
            code, out = sh(["cargo", "build", "--release", "--offline", "-p", "hbsmon", "--target-dir", tdir], cwd=self.harness, env=env, timeout=1800)
            return name, code, out, os.path.join(tdir, "release", "hbsmon")

        with ThreadPoolExecutor(4) as ex:
            built = list(ex.map(build, configs))
        doc = {"evaluations": 0, "distinct_nontrivial": 0, "samples": [], "violations": [], "inconclusive": [], "counters": {}, "notes": [], "assumptions": [
            "the default build of the same worker source is the oracle for parameter lists inside the limits; 'within limits' is read from the crate documentation: length <= levels, h_i <= HBS_LMS_TREE_HEIGHTS[i], w_i >= HBS_LMS_WINTERNITZ_PARAMETERS[i]",
            "key files of out-of-limit lists are produced from the known blob format, as a default build would write them"],
            "rule": "one build of the harness per HBS_LMS_* configuration (levels 1..8, per-level maximum heights, per-level minimum Winternitz parameters, combinations); a generator emits parameter lists inside (boundary + random) and just outside the limits (one level too many, the next larger height on one level, the next smaller W on one level) for all 6 hashes; the transcript (keygen, lifetime, sign, callback count, successor, verify, verify of another message, aux written and used, last-leaf signature and wiped successor) of every in-limit list must equal the default build's byte for byte, every out-of-limit list must be refused with Err by keygen, get_lifetime and sign without callback; distinct_nontrivial = distinct (configuration, case kind, hash, parameter list)"}
        distinct = set()
        vio = {}

        def violation(key, what, replay):
            if key in vio:
                vio[key]["count"] += 1
            else:
                vio[key] = {"key": key, "what": what, "count": 1, "replay": replay}

        import threading
        lock = threading.Lock()

        def per_config(item):
            (name, code, out, binp), cfg = item
            _, lv, hs, ws, _ = cfg
            if code != 0:
                # does the library itself build under this configuration?
                violation(f"C14:{name}:does_not_build", f"the harness (and therefore the library) does not build with HBS_LMS_MAX_ALLOWED_HSS_LEVELS={lv} HBS_LMS_TREE_HEIGHTS='{hs}' HBS_LMS_WINTERNITZ_PARAMETERS='{ws}': " + out[-400:], {"config": name})
                return
            c1, cases = sh([default, "c14-cases", str(lv), hs.replace(" ", ""), ws.replace(" ", ""), "--seed", str(self.seed), "--tier", self.tier], cwd=self.root, env=self.env, timeout=600)
            if c1 != 0 or not cases.strip():
                raise Inconclusive("c14 case generator failed: " + cases[-300:])
            casefile = os.path.join(self.results, f"c14-{name}.cases")
            open(casefile, "w").write(cases)

            # the default build is the oracle for the in-limit lists only (out-of-limit lists are
            # legal there and may be arbitrarily expensive)
            in_only = os.path.join(self.results, f"c14-{name}.in.cases")

            def cheap_out(l):
                # out-of-limit lists the default build can sign quickly (no tree above H10): its
                # signature and public key are handed to the constrained build for verification
                f = l.split()
                return not l.startswith("IN ") and all(int(p.split("/")[0]) <= 10 for p in f[2].split(","))
            open(in_only, "w").write("".join(l + "\n" for l in cases.strip().splitlines() if l.startswith("IN ") or cheap_out(l)))

            def run(binary, path, extra_env=None):
                with open(path) as f:
                    e = dict(os.environ); e.update(self.env); e.update(extra_env or {})
                    try:
                        p = subprocess.run([binary, "c14-worker"], stdin=f, stdout=subprocess.PIPE, stderr=subprocess.PIPE, env=e, cwd=self.root, timeout=1500)
                    except subprocess.TimeoutExpired:
                        return None, "", "timeout"
                return p.returncode, p.stdout.decode("utf-8", "replace"), p.stderr.decode("utf-8", "replace")

            cd, td, ed = run(default, in_only, {"VERIF_C14_EMIT_ARTIFACTS": "1"})
            if cd != 0:
                raise Inconclusive("default-build c14 worker failed: " + str(ed)[-300:])
            # hand the default build's artefacts to the constrained build, case by case
            arts = {}
            for l in td.strip().splitlines():
                case, _, rest = l.partition(" | ")
                for tok in rest.split():
                    if tok.startswith("artifact="):
                        sg, _, pk = tok[len("artifact="):].partition(":")
                        arts[case] = (sg, pk)
            td = "\n".join(" ".join(t for t in l.split(" ") if not t.startswith("artifact=")) for l in td.strip().splitlines())
            with open(casefile, "w") as cf:
                for l in cases.strip().splitlines():
                    a = arts.get(l.strip())
                    cf.write(l.strip() + (f" {a[0]} {a[1]}" if a else "") + "\n")
            cc, tc, ec = run(binp, casefile)
            if cc is None:
                raise Inconclusive(f"watchdog: c14 worker of configuration {name} exceeded its budget")
            by_case = {l.split(" | ")[0]: l for l in td.strip().splitlines()}
            lines_c = tc.strip().splitlines()
            lines_d = [by_case.get(l.split(" | ")[0], l.split(" | ")[0] + " | ") for l in lines_c]
            ncases = len(cases.strip().splitlines())
            if cc != 0 or len(lines_c) != ncases:
                # the constrained worker died (abort / stack overflow / ...): name the case it died on
                k = len(lines_c)
                case = cases.strip().splitlines()[k] if k < ncases else "?"
                violation(f"C14:{name}:worker_crashed", f"the worker built with configuration {name} terminated abnormally (exit {cc}) while executing case: {case}; stderr: {ec[-300:]}", {"config": name, "case": case})
                lines_c = lines_c[:k]
            lock.acquire()
            for ld, lc in zip(lines_d, lines_c):
                kind = ld.split()[0]
                case = ld.split(" | ")[0]
                toks_d = dict(t.split("=", 1) for t in ld.split(" | ")[1].split() if "=" in t)
                toks_c = dict(t.split("=", 1) for t in lc.split(" | ")[1].split() if "=" in t)
                doc["evaluations"] += 1
                f = case.split()
                distinct.add((name, kind, f[1], f[2]))
                replay = {"config": {"name": name, "levels": lv, "heights": hs, "winternitz": ws}, "case": case, "default_build": ld.split(" | ")[1][:2000], "constrained_build": lc.split(" | ")[1][:2000]}
                for tok, v in toks_c.items():
                    if tok.startswith("verify_foreign"):
                        doc["counters"]["foreign_artefacts_verified"] = doc["counters"].get("foreign_artefacts_verified", 0) + 1
                        if v.startswith("panic"):
                            violation(f"C14:{name}:{kind}:{tok}:{v}", f"configuration {name}: verifying a signature and public key produced by the default build for the parameter list {f[2]} ({kind}) crashed: {v}", replay)
                        elif kind == "IN" and not v.startswith("ok"):
                            violation(f"C14:{name}:in_limit:{tok}:{f[1]}", f"configuration {name}: a signature produced by the default build for an in-limit parameter list ({f[2]}) is not accepted: {v}", replay)
                if kind == "IN":
                    doc["counters"]["in_limit_cases"] = doc["counters"].get("in_limit_cases", 0) + 1
                    if not toks_d.get("keygen", "").startswith("ok") or not toks_d.get("sign", "").startswith("ok"):
                        doc["notes"].append(f"default build itself fails an in-limit case: {case}")
                    for tok in toks_d:
                        if tok.startswith("artifact"):
                            continue
                        if toks_c.get(tok) != toks_d[tok]:
                            violation(f"C14:{name}:in_limit:{tok}:{f[1]}", f"configuration {name}: {tok} of an in-limit parameter list ({f[2]}, {f[1]}) differs from the default build: {str(toks_c.get(tok))[:120]} vs {toks_d[tok][:120]}", replay)
                            break
                else:
                    doc["counters"]["out_of_limit_cases"] = doc["counters"].get("out_of_limit_cases", 0) + 1
                    for tok in ("keygen", "lifetime", "sign"):
                        v = toks_c.get(tok, "")
                        if v and not (v == "err" or v.startswith("skipped")):
                            violation(f"C14:{name}:{kind}:{tok}:{v.split(':')[0]}", f"configuration {name}: {tok} of an out-of-limit parameter list ({f[2]}, {kind}) returned {v[:150]} instead of an error", replay)
                    if toks_c.get("callbacks", "0") != "0":
                        violation(f"C14:{name}:{kind}:callback", f"configuration {name}: update callback invoked for an out-of-limit key ({f[2]})", replay)
                if len(doc["samples"]) < 6 and doc["evaluations"] % 97 == 1:
                    doc["samples"].append({"config": name, "case": case, "constrained_build": lc.split(" | ")[1][:300]})
            doc["counters"]["configurations"] = doc["counters"].get("configurations", 0) + 1
            lock.release()
        with ThreadPoolExecutor(3) as ex:
            for fut in [ex.submit(per_config, it) for it in zip(built, configs)]:
                fut.result()
        doc["violations"] = list(vio.values())
        doc["distinct_nontrivial"] = len(distinct)
        doc["wall_s"] = time.time() - t0
        if doc["counters"].get("out_of_limit_cases", 0) == 0 or doc["counters"].get("in_limit_cases", 0) == 0:
            doc["inconclusive"].append("did not exercise both in-limit and out-of-limit lists")
        doc["notes"] = doc["notes"][:10]
        return doc

    # ------------------------------------------------------------------ C15: fast_verify builds
    C15_BUILDS = [
        # (threads, max hash optimizations, quick?)
        (1, 100, True), (2, 7, True), (8, 100, True), (16, 1, True),
        (1, 1, False), (1, 10000, False), (2, 100, False), (4, 7, False), (4, 10000, False), (8, 7, False), (16, 100, False), (16, 10000, False),
        # no trial at all (MAX_HASH_OPTIMIZATIONS / THREADS == 0): the signature must still be an ordinary valid one
        (1, 0, False), (4, 3, False),
    ]

    def stage_c15(self):
        from concurrent.futures import ThreadPoolExecutor
        default = self.build_hbsmon()
        self.calibrate(default)
        builds = [b for b in self.C15_BUILDS if b[2] or self.tier == "thorough"]
        base = os.path.join(self.root, "target", "c15")
        os.makedirs(base, exist_ok=True)

        def build(b):
            t, m, _ = b
            name = f"T{t}-M{m}"
            tdir = os.path.join(base, name)
            env = {"HBS_LMS_THREADS": str(t), "HBS_LMS_MAX_HASH_OPTIMIZATIONS": str(m)}
            code, out = sh(["cargo", "build", "--release", "--offline", "-p", "hbsmon", "--features", "fv", "--target-dir", tdir], cwd=self.harness, env=env, timeout=1800)
            return name, code, out, os.path.join(tdir, "release", "hbsmon")

        with ThreadPoolExecutor(4) as ex:
            built = list(ex.map(build, builds))
        docs = []
        for name, code, out, binp in built:
            if code != 0:
                raise Inconclusive(f"fast_verify build {name} failed: " + out[-500:])

        def run(item):
            name, code, out, binp = item
            res = os.path.join(self.results, f"C15-{name}.json")
            if os.path.exists(res):
                os.remove(res)
            env = dict(self.env); env["VERIF_C15_CONFIG"] = name
            c, text = sh([binp, "C15", "--tier", self.tier, "--seed", str(self.seed), "--out", res], cwd=self.root, env=env, timeout=WATCHDOG[self.tier])
            if c is None:
                raise Inconclusive(f"watchdog: C15 driver of build {name} exceeded its wall-clock budget")
            if c != 0 or not os.path.exists(res):
                raise Inconclusive(f"C15 driver of build {name} failed (exit {c}): " + text[-500:])
            return name, json.load(open(res))

        def tsan():
            tdir = os.path.join(base, "tsan")
            env = {"HBS_LMS_THREADS": "8", "HBS_LMS_MAX_HASH_OPTIMIZATIONS": "100", "RUSTFLAGS": "-Zsanitizer=thread"}
            code, out = sh(["cargo", "+nightly", "build", "-Zbuild-std", "--target", "x86_64-unknown-linux-gnu", "--release", "--offline", "-p", "hbsmon", "--no-default-features", "--features", "fv", "--target-dir", tdir], cwd=self.harness, env=env, timeout=3000)
            if code != 0:
                return "tsan", {"inconclusive": ["ThreadSanitizer build failed: " + out[-300:]]}
            binp = os.path.join(tdir, "x86_64-unknown-linux-gnu", "release", "hbsmon")
            res = os.path.join(self.results, "C15-tsan.json")
            logp = os.path.join(self.results, "C15-tsan.log")
            for f in [res] + [os.path.join(self.results, x) for x in os.listdir(self.results) if x.startswith("C15-tsan.log")]:
                if os.path.exists(f):
                    os.remove(f)
            env = dict(self.env)
            env.update({"VERIF_C15_CONFIG": "tsan-T8-M100", "VERIF_SANITIZER": "tsan", "TSAN_OPTIONS": f"halt_on_error=0 exitcode=0 log_path={logp}"})
            c, text = sh([binp, "C15", "--tier", self.tier, "--seed", str(self.seed), "--out", res], cwd=self.root, env=env, timeout=WATCHDOG[self.tier])
            if c != 0 or not os.path.exists(res):
                return "tsan", {"inconclusive": [f"C15 driver under ThreadSanitizer failed (exit {c}): " + text[-300:]]}
            d = json.load(open(res))
            reports = []
            for x in sorted(os.listdir(self.results)):
                if x.startswith("C15-tsan.log"):
                    body = open(os.path.join(self.results, x), errors="replace").read()
                    for block in body.split("==================")[1:]:
                        if "WARNING: ThreadSanitizer" in block:
                            reports.append(block.strip())
            d.setdefault("counters", {})["tsan_reports"] = len(reports)
            seen = set()
            for b in reports:
                lines = [l.strip() for l in b.splitlines() if l.strip().startswith("#")]
                # dedupe by the first frames inside the library under test
                frames = [l.split(" ", 2)[1] if len(l.split(" ", 2)) > 1 else l for l in lines if "hbs_lms" in l or "hbs-lms" in l or "/repo/" in l][:2]
                sig = "|".join(frames) or (lines[0] if lines else "?")
                if sig in seen:
                    continue
                seen.add(sig)
                d.setdefault("violations", []).append({"key": "C15:tsan:" + sig[:200], "what": "ThreadSanitizer report during sign_mut: " + b.splitlines()[0][:200], "count": 1, "replay": {"report": b[:3000]}})
            return "tsan", d

        def miri(seed_no):
            tdir = os.path.join(base, "miri")
            res = os.path.join(self.results, f"C15-miri-{seed_no}.json")
            if os.path.exists(res):
                os.remove(res)
            env = dict(self.env)
            env.update({"HBS_LMS_THREADS": "2", "HBS_LMS_MAX_HASH_OPTIMIZATIONS": "8", "VERIF_MIRI": "1", "VERIF_C15_CONFIG": f"miri-T2-M8-seed{seed_no}",
                        "MIRIFLAGS": f"-Zmiri-disable-isolation -Zmiri-seed={seed_no}", "CARGO_TARGET_DIR": tdir})
            c, text = sh(["cargo", "+nightly", "miri", "run", "--offline", "-p", "hbsmon", "--features", "fv", "--", "C15", "--tier", self.tier, "--seed", str(self.seed + seed_no), "--out", res, "--threads", "1"], cwd=self.harness, env=env, timeout=3000)
            name = f"miri-seed{seed_no}"
            if c == 0 and os.path.exists(res):
                d = json.load(open(res))
                d.setdefault("counters", {})["miri_runs"] = 1
                return name, d
            tail = text[-3000:]
            if "Undefined Behavior" in text or "Data race detected" in text or "data race" in text.lower():
                first = [l for l in text.splitlines() if l.startswith("error")]
                return name, {"violations": [{"key": "C15:miri:" + (first[0][:160] if first else "undefined behaviour"), "what": "Miri reports undefined behaviour / a data race while running sign_mut (seed %d)" % seed_no, "count": 1, "replay": {"miri_seed": seed_no, "output": tail}}]}
            return name, {"inconclusive": [f"Miri run (seed {seed_no}) failed without reporting undefined behaviour (exit {c}): " + tail[-400:]]}

        nseeds = 2 if self.tier == "quick" else 12
        with ThreadPoolExecutor(8) as ex:
            f_t = ex.submit(tsan)
            f_m = [ex.submit(miri, k) for k in range(nseeds)]
            f_n = [ex.submit(run, b) for b in built]
            docs = [f.result() for f in f_n] + [f_t.result()] + [f.result() for f in f_m]
        merged = self.merge_docs(docs)
        pats = {}
        for name, d in docs:
            pats[name] = d.get("counters", {}).get("distinct_worker_overlap_patterns", 0)
        merged["counters"]["overlap_patterns_per_build"] = pats
        for name, n in pats.items():
            if name.startswith("T"):
                t = int(name.split("-")[0][1:])
                if t >= 4 and n < 2:
                    merged["inconclusive"].append(f"build {name}: fewer than 2 distinct worker overlap patterns observed")
        merged["rule"] += " ; additionally the same driver runs under ThreadSanitizer (-Zsanitizer=thread, build-std; THREADS=8) and under Miri (THREADS=2, tiny key, one seed = one schedule per run): any race / undefined-behaviour report is a violation"
        return merged

    @staticmethod
    def merge_docs(docs):
        """merge the result documents of several driver runs into one"""
        m = {"evaluations": 0, "distinct_nontrivial": 0, "samples": [], "violations": [], "inconclusive": [], "counters": {}, "notes": [], "assumptions": [], "rule": "", "extra": {}}
        for name, d in docs:
            m["evaluations"] += d.get("evaluations", 0)
            m["distinct_nontrivial"] += d.get("distinct_nontrivial", 0)
            m["samples"] += d.get("samples", [])[:3]
            m["violations"] += d.get("violations", [])
            m["inconclusive"] += [f"{name}: {w}" for w in d.get("inconclusive", [])]
            for k, v in d.get("counters", {}).items():
                if isinstance(v, (int, float)):
                    m["counters"][k] = m["counters"].get(k, 0) + v
            for a in d.get("assumptions", []):
                if a not in m["assumptions"]:
                    m["assumptions"].append(a)
            m["rule"] = m["rule"] or d.get("rule", "")
            m["extra"][name] = d.get("extra", {})
        return m

    # ------------------------------------------------------------------ verdict
    def known_findings(self):
        p = os.path.join(self.root, "known_findings.json")
        if not os.path.exists(p):
            return []
        return json.load(open(p)).get("findings", [])

    # ------------------------------------------------------------------ replay of one witness
    @staticmethod
    def replay_requests(case):
        """request lines for `hbsmon replay-worker` from the case document of a witness file"""
        def hx(v):
            if v is None or v == "":
                return "-"
            if not isinstance(v, str) or ".." in v:
                return None  # abbreviated in the witness: cannot be re-executed from the file alone
            return v
        reqs = []
        if not isinstance(case, dict):
            return reqs
        h = case.get("hash")
        if h and "signature" in case and "public_key" in case:
            m, s_, k = hx(case.get("message")), hx(case.get("signature")), hx(case.get("public_key"))
            if None not in (m, s_, k):
                reqs.append(f"verify {h} {m} {s_} {k}")
        if h and "private_key" in case and "heights" not in case:
            b, m, a = hx(case.get("private_key")), hx(case.get("message")), case.get("aux")
            a = "none" if a in (None, "", "None") or (isinstance(a, str) and not all(c in "0123456789abcdef" for c in a)) else a
            if None not in (b, m):
                reqs.append(f"sign {h} {b} {m} {a}")
        if h and "levels" in case and "seed" in case and "counter" in case:
            m, sd = hx(case.get("message")), hx(case.get("seed"))
            if None not in (m, sd) and "/" in str(case["levels"]):
                reqs.append(f"state {h} {case['levels']} {sd} {case['counter']} {m}")
        if h and "digest" in case and "w" in case:
            reqs.append(f"digits {h} {case['w']} {case['digest']}")
        if h and "heights" in case and "private_key" in case:
            reqs.append(f"arith {h} {case['private_key']}")
        return reqs

    def execute_replay(self):
        try:
            wit = json.load(open(self.replay))
        except Exception as e:
            raise Inconclusive(f"cannot read witness file {self.replay}: {e}")
        reqs = self.replay_requests(wit.get("case"))
        print(f"replay of {self.replay}: property={wit.get('property')} key={wit.get('key')}")
        print(f"  recorded: {str(wit.get('what'))[:400]}")
        case = wit.get("case") or {}
        if isinstance(case, dict) and case.get("fuzz_target") and case.get("input"):
            fz = os.path.join(self.harness, "fz")
            code, out = sh(["cargo", "+nightly", "fuzz", "build", case["fuzz_target"]], cwd=fz, timeout=3000)
            if code != 0:
                raise Inconclusive("cargo fuzz build failed: " + out[-300:])
            tmp = os.path.join(self.results, "replay-fuzz-input")
            open(tmp, "wb").write(bytes.fromhex(case["input"]))
            c2, o2 = sh([os.path.join(fz, "fuzz", "target", "x86_64-unknown-linux-gnu", "release", case["fuzz_target"]), tmp], cwd=fz, timeout=300)
            print(o2[-1500:])
            if c2 != 0:
                print(f"VIOLATION property={self.prop} replay={self.replay}")
                return 1
            print(f"OK property={self.prop} replay: the fuzz target runs this input without a crash now")
            return 0
        if not reqs:
            print("  the witness does not carry a self-contained case (build-configuration, schedule or abbreviated input): re-running the whole check with the recorded seed and tier instead")
            self.seed = int(wit.get("seed", self.seed)); self.tier = wit.get("tier", self.tier)
            self.env.update({"VERIF_SEED": str(self.seed), "VERIF_TIER": self.tier})
            self.replay = None
            return self.execute()
        hbsmon = self.build_hbsmon()
        p = subprocess.run([hbsmon, "replay-worker"], input=("\n".join(reqs) + "\n").encode(), stdout=subprocess.PIPE, stderr=subprocess.STDOUT, cwd=self.root, env=dict(os.environ, **self.env), timeout=3600)
        text = p.stdout.decode("utf-8", "replace")
        print(text)
        if p.returncode != 0:
            raise Inconclusive(f"replay worker failed (exit {p.returncode})")
        known = {f["key"] for f in self.known_findings() if f.get("status") == "known" and f.get("property") == self.prop}
        if "DEVIATION" in text:
            if wit.get("key") in known:
                print(f"KNOWN-FINDING: property={self.prop} {wit.get('key')} (replayed)")
                return 0
            print(f"VIOLATION property={self.prop} replay={self.replay}")
            return 1
        print(f"OK property={self.prop} replay: the library agrees with the oracle on this case now")
        return 0

    def execute(self):
        if self.replay:
            return self.execute_replay()
        spec = PROPS[self.prop]
        for st in spec["stages"] + (spec.get("thorough_extra", []) if self.tier == "thorough" else []):
            fn = getattr(self, "stage_" + st)
            doc = fn()
            if doc is not None:
                self.docs.append((st, doc))
        known = {f["key"]: f for f in self.known_findings() if f.get("status") == "known" and f.get("property") == self.prop}
        violations = []
        known_seen = []
        inconclusive = []
        for st, doc in self.docs:
            for v in doc.get("violations", []):
                if v["key"] in known:
                    known_seen.append((v, known[v["key"]]))
                else:
                    violations.append((st, v))
            if st in SUPPLEMENTARY:
                # tools that could not run and exhausted budgets are notes; a failure of the harness
                # itself in that stage is not (the stage then says nothing, silently passing would be wrong)
                hard = [w for w in doc.get("inconclusive", []) if "HARNESS" in w or "driver of the" in w or "driver failed" in w]
                inconclusive += [f"{st}: {w}" for w in hard]
                self.supplementary_notes += [f"{st}: {w}" for w in doc.get("inconclusive", []) if w not in hard]
            else:
                inconclusive += [f"{st}: {w}" for w in doc.get("inconclusive", [])]
        wall = time.time() - self.t0
        self.write_evidence(wall, violations=violations, known_seen=known_seen, inconclusive=inconclusive)
        for w in self.supplementary_notes:
            print(f"NOTE: property={self.prop} supplementary stage inconclusive: {w[:300]}")
        for v, f in known_seen:
            print(f"KNOWN-FINDING: property={self.prop} {f['key']} {f.get('what', v['what'])} (seen {v.get('count', 1)}x)")
        if violations:
            rdir = self.replay_dir
            os.makedirs(rdir, exist_ok=True)
            for k, (st, v) in enumerate(violations):
                path = os.path.join(rdir, f"{self.prop}-{self.tier}-{self.seed}-{k}.json")
                json.dump({"property": self.prop, "stage": st, "key": v["key"], "what": v["what"], "count": v.get("count", 1),
                           "seed": self.seed, "tier": self.tier, "case": v.get("replay")}, open(path, "w"), indent=1)
                print(f"VIOLATION property={self.prop} replay={path}")
                print(f"  key: {v['key']}")
                print(f"  what: {v['what'][:600]}")
            return 1
        if inconclusive:
            for w in inconclusive:
                print(f"INCONCLUSIVE: property={self.prop} {w}")
            return 2
        ev = sum(d.get("evaluations", 0) for _, d in self.docs)
        print(f"OK property={self.prop} tier={self.tier} seed={self.seed} evaluations={ev} wall={wall:.1f}s")
        return 0

    def write_evidence(self, wall, violations=(), known_seen=(), inconclusive=()):
        spec = PROPS[self.prop]
        cov = {"evaluations": 0, "distinct_nontrivial": 0, "rule": "", "samples": [], "stages": {}}
        rules = []
        assumptions = []
        exhaustive = None
        for st, doc in self.docs:
            cov["evaluations"] += int(doc.get("evaluations", 0))
            cov["distinct_nontrivial"] += int(doc.get("distinct_nontrivial", 0))
            if doc.get("rule"):
                rules.append(f"[{st}] {doc['rule']}" if len(self.docs) > 1 else doc["rule"])
            cov["samples"] += doc.get("samples", [])
            cov["stages"][st] = {
                "evaluations": doc.get("evaluations", 0),
                "distinct_nontrivial": doc.get("distinct_nontrivial", 0),
                "counters": doc.get("counters", {}),
                "notes": doc.get("notes", []),
                "extra": doc.get("extra", {}),
                "wall_s": doc.get("wall_s"),
            }
            for a in doc.get("assumptions", []):
                if a not in assumptions:
                    assumptions.append(a)
            if "exhaustive" in doc:
                exhaustive = doc["exhaustive"] if exhaustive is None else (exhaustive and doc["exhaustive"])
        cov["rule"] = " ; ".join(rules)
        if exhaustive is not None:
            cov["exhaustive"] = bool(exhaustive)
        cov["calibration"] = self.calibration
        cov["known_findings_seen"] = [{"key": f["key"], "count": v.get("count", 1)} for v, f in known_seen]
        cov["inconclusive"] = list(inconclusive)
        cov["supplementary_stages_inconclusive"] = list(self.supplementary_notes)
        cov["violation_keys"] = [v["key"] for _, v in violations]
        cov["verdict"] = "violated" if violations else ("inconclusive" if inconclusive else "held on what was observed")
        ev = {
            "property_id": self.prop,
            "tier": self.tier,
            "seed": self.seed,
            "level": spec["level"],
            "coverage": cov,
            "assumptions": assumptions,
            "wall_s": round(wall, 2),
            "violations": len(violations),
        }
        path = os.path.join(self.evidence_dir, f"{self.prop}.json")
        tmp = path + ".tmp"
        json.dump(ev, open(tmp, "w"), indent=1, sort_keys=True)
        os.replace(tmp, path)
