"""Orchestration of the runtime-monitoring checks: builds, calibration, driver stages,
known-finding matching, evidence and replay files."""
import json
import os
import shutil
import subprocess
import time

REPO = os.environ.get("VERIF_REPO", "/repo")

# property -> claimed level and the stages that decide it
PROPS = {
    "C01": {"level": "exploration", "stages": ["native"]},
    "C02": {"level": "exploration", "stages": ["native"]},
    "C03": {"level": "exploration", "stages": ["native"]},
    "C04": {"level": "fault_enumeration", "stages": ["native"]},
    "C05": {"level": "exploration", "stages": ["native"]},
    "C06": {"level": "exploration", "stages": ["native"]},
    "C07": {"level": "exploration", "stages": ["native"]},
    "C08": {"level": "exploration", "stages": ["native"]},
    "C09": {"level": "exploration", "stages": ["native"]},
    "C10": {"level": "exploration", "stages": ["native"]},
    "C11": {"level": "fault_enumeration", "stages": ["native"]},
    "C12": {"level": "exploration", "stages": ["native"]},
    "C13": {"level": "exploration", "stages": ["native"]},
    "C14": {"level": "exploration", "stages": ["native"]},
    "C15": {"level": "exploration", "stages": ["native"]},
    "C16": {"level": "exploration", "stages": ["native"]},
}

WATCHDOG = {"quick": 45 * 60, "thorough": 5 * 3600}


class Inconclusive(Exception):
    pass


def sh(cmd, cwd=None, env=None, timeout=None):
    """run, return (exit code or None on timeout, combined output)"""
    e = dict(os.environ)
    e["CARGO_NET_OFFLINE"] = "true"
    if env:
        e.update(env)
    try:
        p = subprocess.run(cmd, cwd=cwd, env=e, stdout=subprocess.PIPE, stderr=subprocess.STDOUT, timeout=timeout)
        return p.returncode, p.stdout.decode("utf-8", "replace")
    except subprocess.TimeoutExpired as ex:
        out = ex.stdout.decode("utf-8", "replace") if ex.stdout else ""
        return None, out


class Run:
    def __init__(self, root, prop, tier, seed, replay):
        self.root = root
        self.prop = prop
        self.tier = tier
        self.seed = seed
        self.replay = replay
        self.harness = os.path.join(root, "harness")
        self.results = os.path.join(root, "target", "results")
        os.makedirs(self.results, exist_ok=True)
        os.makedirs(os.path.join(root, "evidence"), exist_ok=True)
        self.docs = []  # (stage name, result document)
        self.calibration = []
        self.t0 = time.time()
        self.env = {
            "VERIF_ROOT": root,
            "VERIF_SEED": str(seed),
            "VERIF_TIER": tier,
        }

    # ------------------------------------------------------------------ builds
    def build_hbsmon(self, hooks=True):
        cmd = ["cargo", "build", "--release", "--offline", "-p", "hbsmon"]
        target = os.path.join(self.harness, "target")
        if not hooks:
            target = os.path.join(self.harness, "target-nohooks")
            cmd += ["--no-default-features", "--target-dir", target]
        code, out = sh(cmd, cwd=self.harness, timeout=1800)
        if code != 0:
            # is it the library (as edited) that does not build, or the harness?
            probe = os.path.join(self.root, "target", "repo-probe")
            c2, out2 = sh(["cargo", "build", "--release", "--offline", "--features", "verif_hooks",
                           "--manifest-path", os.path.join(REPO, "Cargo.toml"), "--target-dir", probe], cwd=REPO, timeout=1800)
            tail = "\n".join(out.strip().splitlines()[-25:])
            if c2 != 0:
                raise Inconclusive("the library itself does not build with feature verif_hooks:\n" + "\n".join(out2.strip().splitlines()[-15:]))
            raise Inconclusive("harness build failed although the library builds:\n" + tail)
        return os.path.join(target, "release", "hbsmon")

    def calibrate(self, hbsmon):
        out = os.path.join(self.results, f"calib-{self.prop}.json")
        code, text = sh([hbsmon, "calib", "--out", out], cwd=self.root, env=self.env, timeout=600)
        if code != 0:
            raise Inconclusive("ORACLE-BROKEN: calibration run failed: " + text[-400:])
        doc = json.load(open(out))
        if doc.get("calibration") != "ok":
            raise Inconclusive("ORACLE-BROKEN: " + doc.get("error", "?"))
        self.calibration = doc.get("checked", [])

    # ------------------------------------------------------------------ stages
    def stage_native(self):
        hbsmon = self.build_hbsmon()
        self.calibrate(hbsmon)
        out = os.path.join(self.results, f"{self.prop}-native.json")
        if os.path.exists(out):
            os.remove(out)
        cmd = [hbsmon, self.prop, "--tier", self.tier, "--seed", str(self.seed), "--out", out]
        if self.replay:
            cmd += ["--replay", self.replay]
        code, text = sh(cmd, cwd=self.root, env=self.env, timeout=WATCHDOG[self.tier])
        if code is None:
            raise Inconclusive("watchdog: native driver exceeded its wall-clock budget")
        if code != 0 or not os.path.exists(out):
            raise Inconclusive(f"native driver failed (exit {code}): " + text[-600:])
        return json.load(open(out))

    # ------------------------------------------------------------------ verdict
    def known_findings(self):
        p = os.path.join(self.root, "known_findings.json")
        if not os.path.exists(p):
            return []
        return json.load(open(p)).get("findings", [])

    def execute(self):
        spec = PROPS[self.prop]
        for st in spec["stages"]:
            fn = getattr(self, "stage_" + st)
            doc = fn()
            if doc is not None:
                self.docs.append((st, doc))
        known = {f["key"]: f for f in self.known_findings() if f.get("status") == "known" and f.get("property") == self.prop}
        violations = []
        known_seen = []
        inconclusive = []
        for st, doc in self.docs:
            for v in doc.get("violations", []):
                if v["key"] in known:
                    known_seen.append((v, known[v["key"]]))
                else:
                    violations.append((st, v))
            inconclusive += [f"{st}: {w}" for w in doc.get("inconclusive", [])]
        wall = time.time() - self.t0
        self.write_evidence(wall, violations=violations, known_seen=known_seen, inconclusive=inconclusive)
        for v, f in known_seen:
            print(f"KNOWN-FINDING: property={self.prop} {f['key']} {f.get('what', v['what'])} (seen {v.get('count', 1)}x)")
        if violations:
            rdir = os.path.join(self.root, "replays")
            os.makedirs(rdir, exist_ok=True)
            for k, (st, v) in enumerate(violations):
                path = os.path.join(rdir, f"{self.prop}-{self.tier}-{self.seed}-{k}.json")
                json.dump({"property": self.prop, "stage": st, "key": v["key"], "what": v["what"], "count": v.get("count", 1),
                           "seed": self.seed, "tier": self.tier, "case": v.get("replay")}, open(path, "w"), indent=1)
                print(f"VIOLATION property={self.prop} replay={path}")
                print(f"  key: {v['key']}")
                print(f"  what: {v['what'][:600]}")
            return 1
        if inconclusive:
            for w in inconclusive:
                print(f"INCONCLUSIVE: property={self.prop} {w}")
            return 2
        ev = sum(d.get("evaluations", 0) for _, d in self.docs)
        print(f"OK property={self.prop} tier={self.tier} seed={self.seed} evaluations={ev} wall={wall:.1f}s")
        return 0

    def write_evidence(self, wall, violations=(), known_seen=(), inconclusive=()):
        spec = PROPS[self.prop]
        cov = {"evaluations": 0, "distinct_nontrivial": 0, "rule": "", "samples": [], "stages": {}}
        rules = []
        assumptions = []
        exhaustive = None
        for st, doc in self.docs:
            cov["evaluations"] += int(doc.get("evaluations", 0))
            cov["distinct_nontrivial"] += int(doc.get("distinct_nontrivial", 0))
            if doc.get("rule"):
                rules.append(f"[{st}] {doc['rule']}" if len(self.docs) > 1 else doc["rule"])
            cov["samples"] += doc.get("samples", [])
            cov["stages"][st] = {
                "evaluations": doc.get("evaluations", 0),
                "distinct_nontrivial": doc.get("distinct_nontrivial", 0),
                "counters": doc.get("counters", {}),
                "notes": doc.get("notes", []),
                "extra": doc.get("extra", {}),
                "wall_s": doc.get("wall_s"),
            }
            for a in doc.get("assumptions", []):
                if a not in assumptions:
                    assumptions.append(a)
            if "exhaustive" in doc:
                exhaustive = doc["exhaustive"] if exhaustive is None else (exhaustive and doc["exhaustive"])
        cov["rule"] = " ; ".join(rules)
        if exhaustive is not None:
            cov["exhaustive"] = bool(exhaustive)
        cov["calibration"] = self.calibration
        cov["known_findings_seen"] = [{"key": f["key"], "count": v.get("count", 1)} for v, f in known_seen]
        cov["inconclusive"] = list(inconclusive)
        cov["violation_keys"] = [v["key"] for _, v in violations]
        cov["verdict"] = "violated" if violations else ("inconclusive" if inconclusive else "held on what was observed")
        ev = {
            "property_id": self.prop,
            "tier": self.tier,
            "seed": self.seed,
            "level": spec["level"],
            "coverage": cov,
            "assumptions": assumptions,
            "wall_s": round(wall, 2),
            "violations": len(violations),
        }
        path = os.path.join(self.root, "evidence", f"{self.prop}.json")
        tmp = path + ".tmp"
        json.dump(ev, open(tmp, "w"), indent=1, sort_keys=True)
        os.replace(tmp, path)
