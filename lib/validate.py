#!/usr/bin/env python3
"""validate MANIFEST.json and evidence files against the schemas (uses the tooling venv's jsonschema)"""
import json, sys, glob
import jsonschema
ok = True
m = json.load(open('/verif/MANIFEST.json'))
try:
    jsonschema.validate(m, json.load(open('/root/.vp/MANIFEST.schema.json')))
    print('MANIFEST ok: %d checks, %d not_applicable' % (len(m['checks']), len(m.get('not_applicable', []))))
except Exception as e:
    ok = False; print('MANIFEST INVALID', str(e)[:500])
s = json.load(open('/root/.vp/EVIDENCE.schema.json'))
for f in sorted(glob.glob('/verif/evidence/*.json')):
    try:
        jsonschema.validate(json.load(open(f)), s); print('ok', f)
    except Exception as e:
        ok = False; print('INVALID', f, str(e)[:300])
sys.exit(0 if ok else 1)
